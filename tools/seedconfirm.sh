#!/bin/bash
# usage: tools/seedconfirm.sh <OUTDIR> <ID>      e.g. tools/seedconfirm.sh /tmp/seed2-C01-out/A C01-C
# Confirms a sub-agent's seeded change in its own scratch worktree (never touches /repo's working tree):
# demo exits 0 clean / non-zero patched, go build, full suite. Copies the delivery to /verif/seeded/<ID>/.
set -u
export PATH=/opt/veriftools/go1.26/bin:$PATH GOFLAGS=-mod=mod GOPROXY=off GOSUMDB=off GOTOOLCHAIN=local
SRC=$1; ID=$2
P=${ID%%-*}
DST=/verif/seeded/$ID
mkdir -p $DST && cp -r $SRC/. $DST/
WT=/tmp/sv-$ID
git -C /repo worktree remove --force $WT 2>/dev/null
git -C /repo worktree add --detach $WT HEAD >/dev/null 2>&1 || exit 2
R=$DST/result.txt
: > $R
echo "repo_head=$(git -C /repo log --format=%h -1)" >> $R
DEMO_CMD=$(python3 -c "import json;print(json.load(open('$DST/meta.json')).get('demo_cmd',''))")
DEMO_CMD=$(python3 -c "
import re,sys
print(re.sub(r'/tmp/seed[0-9]?-$P(?!-out)', '$WT', sys.argv[1]))" "$DEMO_CMD")
# placeholders such as <worktree>, <gleece>, <tree>, <repo> stand for the scratch worktree
DEMO_CMD=$(echo "$DEMO_CMD" | sed -E "s#<(worktree|gleece|tree|repo|checkout|src|srcroot)>#$WT#g")
echo "demo_cmd=$DEMO_CMD" >> $R
# a delivered top-level *_test.go is staged into the package directory the go test command names
stage_demo() {
  PKGDIR=$(echo "$DEMO_CMD" | grep -oE ' \./[A-Za-z0-9_/.-]+/?( |$)' | tail -1 | tr -d ' ')
  if [ -n "$PKGDIR" ] && ls $DST/*_test.go >/dev/null 2>&1; then mkdir -p $WT/$PKGDIR && cp $DST/*_test.go $WT/$PKGDIR/; fi
  # ... and a delivered demo/ directory is the content of that package directory
  if [ -n "$PKGDIR" ] && [ -d $DST/demo ] && [ ! -e $WT/$PKGDIR ]; then
    B=$(basename $PKGDIR)
    mkdir -p $WT/$PKGDIR
    if [ -d $DST/demo/$B ]; then cp -r $DST/demo/$B/. $WT/$PKGDIR/; else cp -r $DST/demo/. $WT/$PKGDIR/; fi
  fi
}
run_demo() { stage_demo; (cd $WT && eval "$DEMO_CMD" >$DST/demo-$1.log 2>&1); echo $?; }
echo "demo_clean_exit=$(run_demo clean)" >> $R
(cd $WT && git clean -fdq && git checkout -q -- .)
if ! (cd $WT && git apply $DST/patch.diff); then echo "patch_applies=no" >> $R; else echo "patch_applies=yes" >> $R; fi
(cd $WT && go build ./... >$DST/build.log 2>&1); echo "build_exit=$?" >> $R
echo "demo_patched_exit=$(run_demo patched)" >> $R
(cd $WT && git clean -fdq)
if [ -n "${SKIP_SUITE:-}" ] && [ -s $DST/suite.log ]; then echo "suite: kept from the previous confirmation run of the same patch" >> $R; else
(cd $WT && go test -vet=off -count=1 -timeout 25m ./... > $DST/suite.log 2>&1)
fi
echo "suite_ok_pkgs=$(grep -c '^ok' $DST/suite.log) suite_fail_pkgs=$(grep '^FAIL' $DST/suite.log | grep -v '^FAIL$' | awk '{print $2}' | sed 's|.*/test/||' | tr '\n' ' ')" >> $R
git -C /repo worktree remove --force $WT
cat $R
