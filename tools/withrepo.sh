#!/bin/bash
# usage: tools/withrepo.sh shared|exclusive <command...>
# Every check only READS /repo's working tree, so checks may run side by side (shared lock); a seeded change is
# applied to /repo itself, so that needs the tree alone (exclusive lock). Shared users yield to a waiting
# exclusive user (pause file) so that it is not starved.
mode=$1; shift
if [ "$mode" = exclusive ]; then
  touch /var/tmp/repo.pause.$$
  trap 'rm -f /var/tmp/repo.pause.$$' EXIT
  flock -x /var/tmp/repo.lock "$@"
else
  while ls /var/tmp/repo.pause.* >/dev/null 2>&1; do sleep 3; done
  flock -s /var/tmp/repo.lock "$@"
fi
