#!/bin/bash
# usage: tools/sweep.sh <quick|thorough> <parallel> <seed> [IDs...]   -> /var/tmp/sweeps/<tier>-seed<seed>/
TIER=$1; PAR=$2; SEED=$3; shift 3
IDS=${@:-C01 C02 C03 C04 C05 C06 C07 C08 C09 C10 C11 C12 C13 C14 C15 C16 C17 C18 C19 C20}
OUT=/var/tmp/sweeps/$TIER-seed$SEED
mkdir -p $OUT
cd /verif
run_one() {
  c=$1; s=$(date +%s)
  VERIF_SEED=$SEED tools/withrepo.sh shared ./check $c $TIER > $OUT/$c.log 2>&1
  e=$?
  echo "$c exit=$e secs=$(( $(date +%s) - s )) viol=$(grep -c '^VIOLATION' $OUT/$c.log) known=$(grep -c '^KNOWN-FINDING' $OUT/$c.log) $(grep '^SUMMARY' $OUT/$c.log | sed 's/.*evaluations=/evaluations=/' | cut -c1-150)" >> $OUT/summary.txt
}
export -f run_one; export TIER SEED OUT
: > $OUT/summary.txt
echo $IDS | tr ' ' '\n' | xargs -P $PAR -I{} bash -c 'run_one {}'
echo "done $TIER seed=$SEED" >> $OUT/summary.txt
