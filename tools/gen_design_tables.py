#!/usr/bin/env python3
"""Regenerates the machine-derived tables of DESIGN.md (between BEGIN/END markers) from
known_findings.json and seeded/*/."""
import json, os, re, glob
V = os.path.dirname(os.path.dirname(os.path.abspath(__file__)))

def esc(s):
    return s.replace("|", "\\|").replace("\n", " ")

def findings():
    d = json.load(open(os.path.join(V, "known_findings.json")))
    fixed = [f for f in d["findings"] if f["status"] == "fixed"]
    known = [f for f in d["findings"] if f["status"] != "fixed"]
    out = ["### Repaired defects (`fix:` commits in /repo)", "", "| id | property | commit | what failed | replay |", "|---|---|---|---|---|"]
    for f in fixed:
        wf = re.sub(r"^fixed: property=\S+ \S+ ", "", f["what_fails"])
        out.append(f"| {f['id']} | {f['property']} | `{f.get('commit','')}` | {esc(wf)} | `{f.get('minimal_input','')}` |")
    out += ["", "### Known findings (recorded, not repaired)", "", "| id | property | signature (kind / where) | what fails | replay |", "|---|---|---|---|---|"]
    for f in known:
        sig = f.get("signature", {})
        out.append(f"| {f['id']} | {f['property']} | `{sig.get('kind','')}` {esc(json.dumps(sig.get('where',{})))} | {esc(f['what_fails'])} | `{f.get('minimal_input','')}` |")
    return "\n".join(out)

def seeded():
    import collections
    cnt = collections.Counter()
    for d in sorted(glob.glob(os.path.join(V, "seeded", "*"))):
        n = open(os.path.join(d, "note.txt")).read() if os.path.exists(os.path.join(d, "note.txt")) else ""
        if "NOT a violation" in n:
            cnt["delivered change does not violate the stated property"] += 1
        elif "left so" in n:
            cnt["missed and recorded as a limit of the workload"] += 1
        elif "MISSED" in n:
            cnt["missed on the first run, caught after the workload was widened"] += 1
        elif "caught" in n:
            cnt["caught on the first run"] += 1
        else:
            cnt["unclassified"] += 1
    head = ["Totals over %d seeded changes: " % sum(cnt.values()) + "; ".join("%d %s" % (v, k) for k, v in sorted(cnt.items(), key=lambda kv: -kv[1])) + ".", ""]
    out = head + ["| seeded change | what it does (sub-agent's summary) | needs | checks run -> exit (1 = VIOLATION reported) | note |", "|---|---|---|---|---|"]
    for d in sorted(glob.glob(os.path.join(V, "seeded", "*"))):
        sid = os.path.basename(d)
        try:
            meta = json.load(open(os.path.join(d, "meta.json")))
        except Exception:
            meta = {}
        res = open(os.path.join(d, "result.txt")).read() if os.path.exists(os.path.join(d, "result.txt")) else ""
        runs = []
        m = re.findall(r"check_(\w+)_exit=(\d+)", res)
        for tier, e in m:
            runs.append(f"{sid.split('-')[0]} {tier} (first) -> {e}")
        for c, tier, e in re.findall(r"recheck (\S+) (\w+) exit=(\d+)", res):
            runs.append(f"{c} {tier} -> {e}")
        note = open(os.path.join(d, "note.txt")).read().strip() if os.path.exists(os.path.join(d, "note.txt")) else ""
        summ = esc(str(meta.get("summary", "")))
        if len(summ) > 420:
            summ = summ[:420] + "…"
        needs = esc(str(meta.get("needs", "")))
        if len(needs) > 260:
            needs = needs[:260] + "…"
        out.append(f"| {sid} | {summ} | {needs} | {'; '.join(runs)} | {esc(note)} |")
    return "\n".join(out)

def main():
    p = os.path.join(V, "DESIGN.md")
    s = open(p).read()
    for name, fn in (("findings", findings), ("seeded", seeded)):
        b, e = f"<!-- BEGIN:{name} -->", f"<!-- END:{name} -->"
        if b in s and e in s:
            s = s[:s.index(b) + len(b)] + "\n" + fn() + "\n" + s[s.index(e):]
    open(p, "w").write(s)

if __name__ == "__main__":
    main()
