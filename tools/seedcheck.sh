#!/bin/bash
# usage: tools/seedcheck.sh <PROP>-<VARIANT> [CHECKPROP...]   (re-run checks against an already verified seeded change)
set -u
# /repo's working tree is shared with every other check run: serialise on a lock
if [ -z "${REPO_LOCK_HELD:-}" ]; then exec env REPO_LOCK_HELD=1 /verif/tools/withrepo.sh exclusive "$0" "$@"; fi
S=$1; shift
P=${S%%-*}
CHECKS=${@:-$P}
TIER=${TIER:-quick}
DST=/verif/seeded/$S
cd /repo || exit 2
if [ -n "$(git status --short)" ]; then echo "/repo not clean"; exit 2; fi
git apply $DST/patch.diff || { echo "apply failed"; exit 2; }
for C in $CHECKS; do
  (cd /verif && ./check $C $TIER > $DST/check-$C-$TIER.log 2>&1); e=$?
  echo "recheck $C $TIER exit=$e $(grep -c '^VIOLATION' $DST/check-$C-$TIER.log) violation lines" | tee -a $DST/result.txt
  grep -m2 "^VIOLATION" $DST/check-$C-$TIER.log | cut -c1-260
  grep -h "violation\b" $DST/check-$C-$TIER.log | head -0
  mkdir -p $DST/replays && for f in /verif/replays/$C/${TIER}-seed*; do [ -e "$f" ] && mv "$f" $DST/replays/; done
done
cd /repo && git checkout -- . && git status --short
