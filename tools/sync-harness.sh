#!/bin/bash
# Development happens in a scratch copy (/var/tmp/hdev) so that a check that starts (and builds the
# harness) while an edit is half done never sees a tree that does not compile. This vets the copy and
# then installs it into /verif/harness.
set -e
export PATH=/opt/veriftools/go1.26/bin:$PATH GOFLAGS=-mod=mod GOPROXY=off GOSUMDB=off GOTOOLCHAIN=local
cd /var/tmp/hdev
cp /repo/go.sum . 2>/dev/null || true
test -z "$(gofmt -l . | tee /dev/stderr)"
go vet ./...
go build -o /dev/null ./cmd/verif
rsync -a --delete --exclude go.sum /var/tmp/hdev/ /verif/harness/
echo synced
