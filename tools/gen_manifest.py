#!/usr/bin/env python3
"""Regenerates /verif/MANIFEST.json from the table below (run after adding a check)."""
import json, os
V = os.path.dirname(os.path.dirname(os.path.abspath(__file__)))
GOENV = "PATH=/opt/veriftools/go1.26/bin:$PATH GOFLAGS=-mod=mod GOPROXY=off GOSUMDB=off GOTOOLCHAIN=local"

CHECKS = {
 "C01": dict(
   technique="ground-truth-by-construction monitor: generated multi-controller projects run through the real CLI (3.0.0 and 3.1.0); paths.* of each emitted spec compared both ways with the operations derived from the project descriptor",
   text="Runtime monitoring of the real `gleece generate spec` child process on 80 (thorough 800) generated projects x 2 OpenAPI versions: controllers spread over files and packages, shared and parameterised prefixes, doubled/trailing/missing slashes, same path on several verbs, hidden/deprecated/non-endpoint methods, same-named controllers in different packages. The oracle is the descriptor the project was rendered from (verb, normalised path, operationId, tag, deprecation), read with our own JSON reader. Exploration over generated projects only. Also generated: controllers without @Route / any doc comment, @Hidden with an argument, template-equivalent twins (same shape, other verb, differently named {variables}), half of the runs over a much longer stale output file. Round 3 added: controllers declared inside a documented type ( ... ) block, package-qualified fields in front of the embedded controller, a globbed nested package sorting between two files of one controller, the same verb + method route under two prefixes.",
   note="Trusts the renderer writing what the descriptor says and the path normal form of DESIGN A.1; projects gleece rejects are counted as vacuous (acceptance floor 50%).",
   ref="DESIGN.md §5 C01"),
 "C04": dict(
   technique="three-way relational monitor per route: descriptor-derived effective security vs operation.security in both emitted specs vs the SecurityCheckList literal parsed from the generated routes file; exit status/files vs enforce flag and undeclared-scheme plants",
   text="Runtime monitoring of the real CLI (`generate spec-and-routes`) on 72 (thorough 700) generated projects x 2 versions covering the 3-level inheritance x multiplicity x scopes space, hidden routes, enforceSecurityOnAllRoutes on/off and undeclared schemes planted at method / hidden method / controller / default level. ~400 routes per quick run are compared across the three artifacts; the enforce flag's accept/reject outcome is predicted from the descriptor. Exploration only; the dynamic half (what the router really enforces at request time) is C03's monitor. Undeclared names are look-alikes of declared ones (letter case, prefix, extension) three times out of four; every 4th project is normalised to enforce=true with exactly one route (hidden or documented, optionally next to a secured overlapping twin) stripped of security; configurations carry oauth2 (1-4 flows, differing scopes) and openIdConnect schemes whose emitted form is compared with the configuration.",
   note="Enforced list is read statically from the gin routes file with go/parser; descriptor inheritance rule = DESIGN A.2.",
   ref="DESIGN.md §5 C04"),
 "C06": dict(
   technique="ground-truth-by-construction monitor: every documented operation of both spec versions compared with the contract (parameters, requiredness, bodies, responses) derived from the generated method signature",
   text="Runtime monitoring of the real CLI on 80 (thorough 800) generated projects x 2 versions, ~850 operations per quick run over >400 distinct signature shapes: parameter lists over all five locations plus context, pointer x location x validator requiredness matrix, wire-name aliases, enums/aliases/query slices, JSON and form bodies, every return shape, custom error types, @Response/@ErrorResponse. Oracle = descriptor-derived contract (DESIGN A.3-A.5) read with our own JSON reader. Exploration only. Also generated: grouped parameter fields (a, b, c T followed by an own field of the same type), repeated @ErrorResponse codes in front of further codes, boundary constants of every integer width in enums. User types named context.Context in look-alike packages are generated too (a user struct named Time exposed known finding KF-C06-01).",
   note="Trusts the type->schema table and the requiredness rule as transcribed from the statement; validation keywords inside schemas are C11's subject, not judged here. One known finding (a user struct named Time documented as date-time, KF-C06-01) is cause-attested from the descriptor.",
   ref="DESIGN.md §5 C06"),
 "C07": dict(
   technique="ground-truth-by-construction monitor: components.schemas of both spec versions compared with the reachability closure and per-declaration schemas derived from the generated type graph",
   text="Runtime monitoring of the real CLI on 70 (thorough 600) generated type graphs x 2 versions: self-recursive and acyclic struct graphs over several packages, embedded structs (allOf), enums of eight basic kinds incl. '='-style, aliases, nested slices, maps, time/bytes/any, unexported and json:\"-\" fields, decoy constants and unreachable decoy types, usage-site validators on enum-typed fields (the non-interference clause: the shared component must still list all declared constants). Oracle = declarations in the descriptor (DESIGN A.4/A.6). Exploration only. Also: same-named types in several packages (known finding KF-C07-01), boundary enum constants (int64/uint64 extremes, read without float rounding) and a metamorphic stage - every 4th project is a clone of its predecessor without usage-site @Deprecated / descriptions / validators, and the components of the field types must be the same JSON in both. The metamorphic stage also decorates time.Time / []byte fields of one of two structs; error models may embed another struct with error last.",
   note="Presence of a component for a type reachable only from hidden routes, and of Rfc7807Error when no route returns plain error, is not judged; enum values compared by printed form. One known finding (same-named types of different packages share one component, KF-C07-01) is cause-attested.",
   ref="DESIGN.md §5 C07"),
 "C08": dict(
   technique="independent structural validator (encoding/json only) run over every spec file found after every CLI run, accepted or not, on projects aimed at the rejection boundary",
   text="Runtime monitoring: 96 (thorough 960) 'fullspec' projects, every second one carrying an edit that makes a valid document impossible or borderline (@Path without {name}, duplicate (name,in), undeclared schemes, missing leading slash, string enums that look like numbers/booleans, same wire name in two locations); whatever file exists at the configured output path after the run is checked for $ref closure, template<->path-parameter bijection, unique (name,in), response descriptions, enum value JSON types and openapi/info/servers/securitySchemes vs the configuration. The oracle deliberately does not use kin-openapi/libopenapi (gleece's own validators). Exploration only. Further edits: a header/query parameter sharing its wire name with a path parameter and preceding it; oauth2/openIdConnect schemes compared flow by flow; template-equivalent twins; every other project generated over a much longer stale file at the output path (what remains must still be one valid document).",
   note="Two known findings (typed enum values, both pinned by e2e assets) are listed in known_findings.json with cause-attested signatures.",
   ref="DESIGN.md §5 C08"),
 "C10": dict(
   technique="perturbation monitor with verdict-by-construction: well-formed generated projects plus one descriptor edit tagged with the rule it breaks; real in-process Validate() diagnostics, CLI exit status and before/after file snapshots are judged against the tag",
   text="Runtime monitoring on 132 (thorough 1320) cases: 33 operators (P1-P16 each break one rule the statement names; P17-P21 blocking-half/warning cases; P0, P3, PC1-PC4 positive controls) applied to a dedicated Target method embedded at a random position of a random multi-controller project rendered at random vertical offsets. Soundness (ill-linked => error diagnostic), completeness (well-formed => no rejection) and blocking (error diagnostic => exit!=0 and nothing created below dist/) are judged separately. Exploration over the operator catalogue x generated contexts. Since extended to 51 operators: decorated doubles (an error next to a warning on one annotation), PX1-PX5 (two link defects reached through several checks, a grouped field spanning source lines), PE1-PE3 (last result not embedding error, alone and next to a same-named valid error type of another package, both directions); a third of the cases get a well-formed sibling whose route overlaps the Target's. Round 3 added PS0-PS3 (slices in query/header/path/form) and PM1 (enforce flag, unsecured route in another file than its controller).",
   note="The operator catalogue (DESIGN Appendix H) is the ground truth; rejections through a hard error rather than a diagnostic are counted, not judged.",
   ref="DESIGN.md §5 C10, Appendix H"),
 "C11": dict(
   technique="differential monitor: the 3.0.0 and 3.1.0 documents of one project normalised to a neutral structure (DESIGN A.7) and deep-compared with a path-addressed diff",
   text="Runtime monitoring of the real CLI on 80 (thorough 800) projects x 2 versions with validators drawn from every rule either converter understands (22 rule names, applicable to the target type or not) on fields, parameters, bodies and form fields, plus security/deprecation combinations; paths, verbs, operationIds, tags, parameters, bodies, response codes, $ref targets, security and component schemas incl. numeric/length bounds and enum sets are compared after dialect translation. Exploration only. Also generated: an @ErrorResponse code equal to the @Response code, repeated error codes, boundary integer constants, oauth2/openIdConnect schemes, zero-valued bounds.",
   note="At most one rule per bound is generated (3.0 has one maximum/minimum slot). Two known findings (3.0-only default response, zero-valued length bounds dropped by 3.1) are cause-attested in known_findings.json.",
   ref="DESIGN.md §5 C11"),
 "C18": dict(
   technique="diagnostic-position monitor: every diagnostic of the real in-process Validate() on perturbed projects is checked against the renderer's position map (file, 0-based rune range, entity extent, code/severity/anchor table) and the Run() error text is scanned for repeats",
   text="Runtime monitoring on 108 (thorough 1080) perturbed projects (27 operators of Appendix H) rendered at random vertical offsets with multibyte noise above and inside comments, several controllers per file and several files: ~250 diagnostics per quick run over 17 codes. Exact anchor ranges are required for the 20 operators with a documented code (value ranges, {param} sub-ranges, whole-line ranges, parameter ranges). Exploration only. Since extended to 43 operators (decorated doubles, PX1-PX5 incl. a grouped field spanning source lines, overlapping twins adding route-conflict warnings); duplicates are searched in the diagnostics list and in the error text. Round 3 added PM1, PS1-PS3, PE1 and Target routes whose parameter name also occurs as literal text before its {placeholder}.",
   note="Positions are the renderer's own bookkeeping (0-based lines, rune columns). One known finding (entity block repeated per error diagnostic, pinned by test/diagnostics) is cause-attested.",
   ref="DESIGN.md §5 C18, Appendix H"),
 "C19": dict(
   technique="history monitor on a long-lived session: call histories over GenerateGraph/Validate/GenerateIntermediate/Run on ONE GleecePipeline, every step's canonical metadata, spec bytes, diagnostics and graph census compared with the first pass and with a brand-new pipeline (iteration order pinned via hook H1)",
   text="Runtime monitoring in child processes (one per project x history): 30 (thorough 250) 'fullspec' projects x 3 (thorough 6) histories such as GVIGVIGVIF, GGVIIF, RRRF, FRGIF; validation-failing projects get G/V-only histories. ~700 steps per quick run. Detects cache-served answers that differ from fresh ones, graph growth across passes, serial/identifier drift. Exploration over histories. Every 3rd project carries a controller in a file the globs do not match inside a package that is only loaded on demand: it must not appear on any pass. Hidden (unexported / json:\"-\") fields sit at random positions of the models.",
   note="Order-insensitive canonical form of GleeceFlattenedMetadata; iteration orders pinned to canonical through VERIF_ORDER=canon so that C13's order dependence cannot masquerade as a cache defect.",
   ref="DESIGN.md §5 C19"),
 "C13": dict(
   technique="byte-comparison monitor under forced iteration orders (hook H1 at the three map/packages.Load sites: all k! permutations for k<=4, seeded shuffles + reversal otherwise, joint shuffles) plus hook-free fresh-process repetitions, engine sweep and date-comment run",
   text="Runtime monitoring of the real CLI: 10 (thorough 60) multi-controller / multi-file / multi-package projects x ~35-90 runs each; spec and routes bytes of every run are compared with the canonical-order reference; the evidence lists how many distinct orders were actually forced per site (from the hook trace) and how many distinct outputs were seen. Exploration of the order space, exhaustive only for sites with <=4 elements. Every 3rd project has three sibling controller packages (api/v1..v3) declaring a struct of one shared name; half use generateEnumValidator; four canonical-order runs under GOMAXPROCS 1/2/5/64 perturb the parse schedule; a warm-process stage repeats the reference generation as the SECOND invocation inside one process whose first invocation used a template extension / a template override / another engine. A used-output-directory run (re-indented equivalent spec and longer routes file already present, outputFilePerms set) and a warm-process variant that rewrites ONE config path between two in-process invocations were added in round 3.",
   note="Assumes the three H1 sites capture the pipeline's iteration-order freedom; hook-free repetitions (Go's own map randomisation) are an independent net for anything else.",
   ref="DESIGN.md §5 C13, §4 H1"),
 "C14": dict(
   technique="process-outcome monitor: ~300 (thorough ~2500) child-process runs of the real CLI over four hostile input grammars x commands, classified by exit status, crash signatures in stderr, promised artifacts, watchdog, and the hook-H2 materialisation trace (re-entrancy / nesting-depth safety check)",
   text="Runtime monitoring without a reference model: every run must end with exit 0 and its artifacts or exit 1 and a message. Inputs: 45 unsupported/unusual Go constructs (alone and combined), 72 malformed annotation lines, the 22 validator rule names x 15 malformed values x 16 field types plus raw random tags, every leaf of the configuration replaced by 12 type-confused values or removed, raw malformed config files, template overrides, odd command lines. The thorough tier runs half of the validator-tag grammar against a -race build (checkptr). Exploration of the input grammars; 'never loops' is restated as: terminates under a 150 s watchdog (re-run alone with 400 s before it counts) and no declaration is materialised re-entrantly. Later additions: an annotation x property x ill-typed-value matrix (sampled in the quick tier), generic structs with unexported / json:\"-\" / embedded fields, array lengths given by constants and expressions, multi-name const specs, every subset of the four oauth2 flows x both spec versions. Round 3 added: types from packages whose import path ends in v / v2 / v0 / keyword-like names, doc blocks starting with bare // lines, validators on enum/alias/pointer-typed parameters in every location x both versions.",
   note="No oracle beyond process outcomes; hangs are only reported after a second watchdog hit in isolation.",
   ref="DESIGN.md §5 C14, §4 H2"),
 "C15": dict(
   technique="reference-model monitor: brute-force overlap oracle over every route list (bounded-exhaustive + random, permutation re-runs) observing paths.FindConflicts in-process",
   text="Runtime monitoring of the real FindConflicts: every ordered list of <=3 (thorough <=4) entries over 42 route entries plus thousands of large duplicate-heavy random lists are executed and each reported conflict / each unflagged entry is judged by a 12-line overlap model transcribed from the statement; entry identity is tracked by pointer so duplicates are distinguishable. Exploration, not proof: the verdict covers the enumerated and sampled lists only. A second, end-to-end stage validates 40 (thorough 600) generated projects (controllers sharing one prefix, routes over a tiny alphabet, unrelated controller- and method-level warnings present) with the real pipeline under two forced discovery orders: the methods carrying a route-conflict diagnostic must be exactly those the overlap model derives from the descriptor.",
   note="Trusts the 12-line overlap model (DESIGN A.8) and that Meta.Receiver pointers identify entries; the end-to-end attachment of warnings to methods is observed by C18's lab, not here.",
   ref="DESIGN.md §5 C15"),
 "C16": dict(
   technique="round-trip monitor: generator-owned annotation tuples rendered by an independent JSON5 printer, parsed by the real AnnotationHolder and compared field by field",
   text="Runtime monitoring of the real parser on 20k (thorough 1M) generated comment blocks mixing annotation lines, free text, look-alike non-annotations and malformed property objects; the oracle is the tuple the generator wrote (name, value, JSON value tree, description, line order, description rule). Exploration over a generated input language; no claim beyond the generated blocks. In every 8th block all described annotation lines end in blanks; only a uniform treatment of those blanks within one block is required.",
   note="Trusts the line grammar of DESIGN A.9 (blank handling around the value is deliberately not exercised) and our JSON5 printer producing what the tuple says.",
   ref="DESIGN.md §5 C16"),
 "C17": dict(
   technique="reference-model monitor over operation histories: every public query of the real SymbolGraph read back after every operation and compared with a set-of-nodes/set-of-edges model; failing histories delta-debugged",
   text="Runtime monitoring of the real SymbolGraph: all histories of <=3 (thorough <=4) operations over a 55-letter alphabet plus 20k (thorough 400k) random histories of up to 60 operations (typed adders, two edge kinds between a pair, self loops, cycles, file-version bumps, RemoveEdge(kind|nil), RemoveNode cascades); after each operation Exists/Get/GetEdges(in,out,filtered)/Children/Parents/Descendants/FindByKind on all keys must equal the 40-line model. Exploration of histories; ambiguity zones are counted, not judged. The enumerated alphabet uses the kinds ty and typaram (one a textual prefix of the other), random histories all 15 declared edge kinds. Re-inserting an existing edge is bracketed by an ordered fingerprint (edge ordinals, ordinal-sorted children/parents) that must not change; every other file version differs from its predecessor only in the content hash.",
   note="Trusts the executable model of DESIGN A.10; references always carry the live node's file version (stale-version references are an explicit ambiguity zone).",
   ref="DESIGN.md §5 C17"),
}
 
CHECKS["C20"] = dict(
   technique="configuration-corruption monitor: every catalogued single-field corruption of a valid config (paired with a syntactically broken globbed source file to expose check-after-analysis) plus a sweep of valid configs whose artifacts are stat'ed, parsed and compared with the configuration (child runs under umask 0, decoy controllers outside the globs)",
   text="Runtime monitoring of the real CLI: 42 corruption rows x 2 (thorough 12) rounds must be rejected up front (exit!=0, message names the Go or JSON field, message not about source analysis, snapshot shows nothing written); 40 (thorough 400) valid configurations over 5 engines x 2 versions x 8 permission strings x package names x output paths x 3 glob/decoy layouts, a third written as JSON5, must be honoured literally (path, mode, package clause, engine and authorization imports, openapi version, info/servers/securitySchemes copy, no controller from an unglobbed file in spec or routes, no extra files). Exploration of the catalogue x generated projects. Glob layouts include expressions that match nothing in front of and between the real ones; every glob-matched controller must appear in routes file and spec; oauth2 flows and openIdConnect are part of the copied securitySchemes.",
   note="Catalogue transcribed from the validate tags (DESIGN Appendix I); JSON-typing errors are judged on up-front rejection only (the decoder's message carries no field name); controllerGlobs:[] and a missing commonConfig are observed, not judged.",
   ref="DESIGN.md §5 C20, Appendix I")

CHECKS["C09"] = dict(
   technique="compiler-as-oracle monitor: every routes file left behind by a successful `generate routes` run for each of the five engines and three flag combinations is parsed, compiled with `go build` against the engine, the user's controller packages and an instrumented authorization package, and checked against gofmt",
   text="Runtime monitoring of the real CLI plus the Go toolchain on 16 (thorough 120) generated projects x 5 engines: hostile identifier names (template locals, package names, predeclared identifiers, colliding lower-camel forms), same-base-name types from several packages, map/time/any/[]byte/nested-slice/[]*T values, custom error types by value and pointer, security, experimental flags. Failures are attributed to a cause from the descriptor and the first compiler diagnostics so that the four known findings cannot hide an unrelated compile or formatting defect. Exploration only. Also: same-named enum/struct types from two packages used under the same parameter name, user types named context.Context / time.Time in packages named alike, hyphenated and non-canonical wire names, grouped parameter fields, a body model using the generated enum validator tag. Every 8th project spells one verb in lower case (must be rejected, not half accepted).",
   note="go build and go/format are trusted; the gofmt finding is only matched when the file differs from its gofmt form solely by removed blank lines, in-line alignment and order inside the merged import block.",
   ref="DESIGN.md §5 C09")

CHECKS["C05"] = dict(
   technique="trace-checking monitor over generated routers: instrumented controller methods record the arguments they receive (JSONL event log, per-request ids in a header); an offline checker compares them with the values sent, computed through Go's own typed conversions; refusals checked by status and absence of a call event; thorough tier adds an 8-goroutine pass under the race detector",
   text="Runtime monitoring of real generated code: 8 (thorough 80) compile-safe projects x 5 engines (gin, echo, mux, chi via ServeHTTP+httptest, fiber via app.Test), ~2000 request evaluations per quick run over >200 distinct (parameter-list shape x request class) cells: typical/boundary/zero values of every integer width, float extremes, URL-reserved and multibyte strings, wire-name aliases, query slices, enums, aliases, pointers present/absent, JSON and form bodies, context parameters (token set by a before-operation middleware), per-parameter omission, unconvertible/out-of-range values, validator violations, malformed bodies. Exploration only. Also: same-named decoys (well-typed values) in every location a parameter is NOT declared in, alone and combined with omission; hyphenated path names and non-canonical header aliases; one grouped field of three names followed by a same-typed own field; a third of the projects with generateEnumValidator and a body model tagged with the generated validator over awkward enum constants (R&D, a<b>c, it's); boundary enum constants up to 2^64-1. With validateTopLevelOnlyEnum (every 4th project) a same-named alias/enum pair shares a method and non-member values must be refused; query aliases contain & < > '.",
   note="Path values use canonical URL encoding and no '+' (echo/chi route on RawPath for over-escaped paths, fiber's UnescapePath turns '+' into a blank: engine matters); an absent optional parameter that carries a validator is not exercised (unstated).",
   ref="DESIGN.md §5 C05, Appendix B")

CHECKS["C02"] = dict(
   technique="trace-checking monitor over generated routers: positive requests per annotated method must yield exactly one call event naming that controller/method on each of the five engines, negative probes (other verb, extra literal segment, altered literal) none; served set compared with the spec of the same run; thorough tier replays from 32 goroutines under the race detector with unique request ids",
   text="Runtime monitoring of real generated routers (gin/echo/mux/chi through ServeHTTP+httptest, fiber through app.Test): 10 (thorough 100) multi-controller projects with parameterised prefixes, doubled/tripled/trailing/missing slashes, same path on several verbs, hidden routes, undocumented controllers; ~800 request evaluations per quick run over ~500 distinct (engine, probe kind, route shape) cells. Exploration only. Hyphenated parameter names, grouped parameter fields and @Hidden(arg) are part of the generated projects.",
   note="Negative probes never depend on engine configuration (no trailing-slash, case, HEAD/OPTIONS, redirect probes; no extra segment below a trailing {param}: echo's last :param is greedy). Only projects whose spec-and-routes run exits 0 are probed.",
   ref="DESIGN.md §5 C02, Appendix B")

CHECKS["C03"] = dict(
   technique="trace-checking monitor over generated routers: the instrumented authorization callback logs every consultation and decision (policy scripted per request through a header), controller bodies / before-operation and input-validation middlewares / request-body reads log events with a global sequence number; an offline checker requires approvals of one whole effective alternative before any of them; thorough tier replays from 8 goroutines under the race detector",
   text="Runtime monitoring of real generated routers on the five engines: 8 (thorough 80) projects with method-, controller- and default-level security (1-3 alternatives, repeated schemes, 0-3 scopes); per route every scripted callback behaviour (approve all, refuse all with 401/418/custom payload, refuse exactly alternative i, approve only alternative i, different statuses per alternative) x (valid request, missing required parameter, unconvertible value, malformed body): ~3400 request evaluations per quick run over ~360 distinct (engine, #alternatives, authorised?, invalid?, policy shape) cells. Exploration only. Every 4th project inherits a default security with an empty scope list, another 4th has two verbs on one path with different method-level security; @Security lines carry free text containing '})'. Scopes contain & < > ' (each engine must hand them to the callback unescaped); controllers may sit in grouped type declarations.",
   note="The effective security of a route is computed from the project descriptor (method overrides controller overrides default). body_read is not observable under fiber's app.Test; which refusal status wins among several refusing alternatives is judged by membership only.",
   ref="DESIGN.md §5 C03, Appendix B")

CHECKS["C12"] = dict(
   technique="differential trace-checking monitor: the five generated routers of one project are driven in one process with identical requests; per request id the tuple (calls, controller.method, recorded arguments, status, body parsed as JSON) from the JSONL event log must be equal on all engines; thorough tier adds a 4-goroutine pass under the race detector",
   text="Runtime monitoring of real generated routers (gin/echo/mux/chi through ServeHTTP+httptest, fiber through app.Test): 8 (thorough 80) projects, half with validateResponsePayload, ~850 compared requests per quick run over ~800 distinct (request class, parameter shape, status) cells: valid/boundary/zero values, omitted / unconvertible / validator-violating parameters, malformed bodies, operation behaviours err/status/header/errstatus with plain and custom error types, authorization refusals (401/418/custom payload) and hostile variants without a reference answer (repeated/empty/unknown query keys, empty header values, wrong/missing/parameterised content types, empty/null/array/scalar/trailing-garbage bodies, repeated form keys). Exploration only; no reference model, only disagreement is judged. Also: same-named well-typed decoys in the other locations, whitespace-only and padded bodies, every alternative refused with its own status/payload, only-first / only-last alternative approving, a third of the projects with generateEnumValidator and an enum-tagged body model. A body model with two independently validated fields is violated in both at once.",
   note="All engines receive the same *http.Request in-process; response headers are observed, not judged (the statement names status and body). Path values use canonical encoding and no '+' as in C05.",
   ref="DESIGN.md §5 C12, Appendix B")

NOT_YET = {
}
ALL = ["C%02d" % i for i in range(1, 21)]

def main():
    checks = []
    for pid in ALL:
        if pid not in CHECKS:
            continue
        c = CHECKS[pid]
        checks.append({
            "property_id": pid,
            "quick_cmd": f"./check {pid} quick",
            "thorough_cmd": f"./check {pid} thorough",
            "evidence_file": f"/verif/evidence/{pid}.json",
            "replay_cmd_template": f"./check {pid} quick --replay {{path}}",
            "engine": "runtime-monitor",
            "level_claimed": {"category": "exploration", "text": c["text"], "design_ref": c["ref"]},
            "level_note": c["note"],
            "technique": c["technique"],
        })
    na = []
    for pid in ALL:
        if pid not in CHECKS:
            na.append({"property_id": pid, "reason": NOT_YET.get(pid, "not claimed yet: the runtime monitor for this property (designed in DESIGN.md §5) has not been built/validated in this tree; nothing is asserted about it")})
    m = {
        "version": 1,
        "setup_cmd": "./setup.sh",
        "hooks": {
            "guard": "verif",
            "enable": "go build -tags verif (every check builds the gleece CLI and the in-process monitors from /repo's working tree with -tags verif)",
            "baseline_off_cmd": f"cd /repo && {GOENV} go test -vet=off -count=1 -timeout 25m ./...",
            "source_commits": json.load(open(os.path.join(V, "tools", "hook_commits.json"))) if os.path.exists(os.path.join(V, "tools", "hook_commits.json")) else [],
            "add_only": True,
        },
        "engines": [{
            "name": "runtime-monitor",
            "path": "/verif/harness",
            "serves_properties": sorted(CHECKS),
            "kind_free_text": "Go harness: generated hostile workloads run against the real code (CLI child processes, in-process monitors linked against /repo, generated routers under httptest and -race); oracles are reference models and offline trace checkers; see DESIGN.md",
        }],
        "checks": checks,
        "not_applicable": na,
        "notes": "Every check: ./check <ID> <quick|thorough> [--replay file]; exit 0 held / 1 violation / 2 could not run / 3 inconclusive (observed too little). Known findings: /verif/known_findings.json. Seeds via VERIF_SEED.",
    }
    json.dump(m, open(os.path.join(V, "MANIFEST.json"), "w"), indent=1)
    print("wrote MANIFEST.json:", len(checks), "checks,", len(na), "not claimed")

main()
