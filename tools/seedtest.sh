#!/bin/bash
# usage: tools/seedtest.sh <PROP> <VARIANT> [check-tier]
# 1. verifies a sub-agent's seeded change in a scratch worktree (demo passes clean / fails patched, build + full suite)
# 2. applies it to /repo, runs the property's check, reverts. Results -> /verif/seeded/<PROP>-<VARIANT>/result.txt
set -u
# /repo's working tree is shared with every other check run: serialise on a lock
if [ -z "${REPO_LOCK_HELD:-}" ]; then exec env REPO_LOCK_HELD=1 /verif/tools/withrepo.sh exclusive "$0" "$@"; fi
export PATH=/opt/veriftools/go1.26/bin:$PATH GOFLAGS=-mod=mod GOPROXY=off GOSUMDB=off GOTOOLCHAIN=local
P=$1; X=$2; TIER=${3:-quick}
SRC=/tmp/seed-$P-out/$X
DST=/verif/seeded/$P-$X
mkdir -p $DST
[ -d "$SRC" ] && cp -r $SRC/. $DST/
cd /repo || exit 2
if [ -n "$(git status --short)" ]; then echo "/repo not clean"; exit 2; fi
WT=/tmp/sv-$P-$X
git worktree remove --force $WT 2>/dev/null
git worktree add --detach $WT HEAD >/dev/null 2>&1 || exit 2
R=$DST/result.txt
: > $R
echo "repo_head=$(git log --format=%h -1)" >> $R
DEMO_CMD=$(python3 -c "import json;print(json.load(open('$DST/meta.json')).get('demo_cmd',''))")
# demos that hard-code the agent's own worktree are redirected to the scratch worktree
DEMO_CMD=$(python3 -c "
import re,sys
print(re.sub(r'/tmp/seed-$P(?!-out)', '/tmp/sv-$P-$X', sys.argv[1]))" "$DEMO_CMD")
echo "demo_cmd=$DEMO_CMD" >> $R
# place demo files: any *_test.go in DST is copied where meta says; we let the caller pre-stage via DEMO_STAGE env if needed
if [ -n "${DEMO_STAGE:-}" ]; then (cd $WT && eval "$DEMO_STAGE"); fi
run_demo() { (cd $WT && eval "${DEMO_RUN:-$DEMO_CMD}" >/tmp/sv-demo.log 2>&1); echo $?; }
echo "demo_clean_exit=$(run_demo)" >> $R
if ! (cd $WT && git apply $DST/patch.diff); then echo "patch_applies=no" >> $R; else echo "patch_applies=yes" >> $R; fi
(cd $WT && go build ./... >/tmp/sv-build.log 2>&1); echo "build_exit=$?" >> $R
echo "demo_patched_exit=$(run_demo)" >> $R
(cd $WT && git clean -fdq)   # demo files staged inside the tree must not take part in the suite
if [ -z "${SKIP_SUITE:-}" ]; then
  (cd $WT && go test -vet=off -count=1 -timeout 25m ./... > /tmp/sv-suite-$P-$X.log 2>&1)
  echo "suite_ok_pkgs=$(grep -c '^ok' /tmp/sv-suite-$P-$X.log) suite_fail_pkgs=$(grep '^FAIL' /tmp/sv-suite-$P-$X.log | grep -v '^FAIL$' | awk '{print $2}' | tr '\n' ' ')" >> $R
fi
git worktree remove --force $WT
# now against /repo itself
cd /repo && git apply $DST/patch.diff || { echo "apply to /repo failed" >> $R; exit 2; }
(cd /verif && ./check $P $TIER > $DST/check-$TIER.log 2>&1); echo "check_${TIER}_exit=$?" >> $R
cd /repo && git checkout -- . && git status --short >> $R
mkdir -p $DST/replays && for f in /verif/replays/$P/${TIER}-seed*; do [ -e "$f" ] && mv "$f" $DST/replays/; done
grep -m3 "^VIOLATION" $DST/check-$TIER.log | cut -c1-300 >> $R
grep "^SUMMARY" $DST/check-$TIER.log >> $R
cat $R
