package props

import (
	"encoding/json"
	"fmt"
	"regexp"
	"sort"
	"strings"

	"verif/harness/oapi"
	"verif/harness/orch"
	"verif/harness/report"
	"verif/harness/synth"
)

// ---- DESIGN A.7: dialect normalisation ----

func num(v any) (float64, bool) {
	if n, isNum := v.(json.Number); isNum {
		f, err := n.Float64()
		return f, err == nil
	}
	f, ok := v.(float64)
	return f, ok
}

func normSchema(v any) any {
	s := oapi.Obj(v)
	if s == nil {
		return nil
	}
	out := map[string]any{}
	if r := oapi.RefName(s); r != "" {
		out["$ref"] = r
		return out
	}
	// type
	switch t := s["type"].(type) {
	case string:
		out["type"] = t
	case []any:
		var ts []string
		for _, x := range t {
			if oapi.Str(x) == "null" {
				out["nullable"] = true
			} else {
				ts = append(ts, oapi.Str(x))
			}
		}
		sort.Strings(ts)
		out["type"] = strings.Join(ts, "|")
	}
	if oapi.Bool(s["nullable"]) {
		out["nullable"] = true
	}
	// numeric bounds
	if m, ok := num(s["minimum"]); ok {
		if b, isBool := s["exclusiveMinimum"].(bool); isBool && b {
			out["xmin"] = m
		} else {
			out["min"] = m
		}
	}
	if x, ok := num(s["exclusiveMinimum"]); ok {
		out["xmin"] = x
	}
	if m, ok := num(s["maximum"]); ok {
		if b, isBool := s["exclusiveMaximum"].(bool); isBool && b {
			out["xmax"] = m
		} else {
			out["max"] = m
		}
	}
	if x, ok := num(s["exclusiveMaximum"]); ok {
		out["xmax"] = x
	}
	for _, k := range []string{"minLength", "maxLength", "minItems", "maxItems"} {
		if x, ok := num(s[k]); ok {
			if (k == "minLength" || k == "minItems") && x == 0 {
				continue // 0 is the default
			}
			out[k] = x
		}
	}
	for _, k := range []string{"pattern", "format"} {
		if x := oapi.Str(s[k]); x != "" {
			out[k] = x
		}
	}
	if oapi.Bool(s["uniqueItems"]) {
		out["uniqueItems"] = true
	}
	if ev, ok := s["enum"].([]any); ok {
		out["enum"] = enumSet(ev)
	}
	if props := oapi.Obj(s["properties"]); len(props) > 0 {
		np := map[string]any{}
		for k, pv := range props {
			np[k] = normSchema(pv)
		}
		out["properties"] = np
	}
	if req := oapi.Arr(s["required"]); len(req) > 0 {
		var rs []string
		for _, r := range req {
			rs = append(rs, oapi.Str(r))
		}
		sort.Strings(rs)
		out["required"] = rs
	}
	if it := oapi.Obj(s["items"]); it != nil {
		out["items"] = normSchema(it)
	}
	if ap := oapi.Obj(s["additionalProperties"]); ap != nil {
		out["additionalProperties"] = normSchema(ap)
	}
	if all := oapi.Arr(s["allOf"]); len(all) > 0 {
		var parts []any
		for _, a := range all {
			parts = append(parts, normSchema(a))
		}
		out["allOf"] = parts
	}
	return out
}

func normContent(v any) any {
	c := oapi.Obj(v)
	if len(c) == 0 {
		return nil
	}
	out := map[string]any{}
	for ct, mv := range c {
		out[ct] = normSchema(oapi.Obj(mv)["schema"])
	}
	return out
}

func normDoc(d *oapi.Doc) map[string]any {
	out := map[string]any{}
	ops := map[string]any{}
	for _, op := range d.Operations() {
		o := map[string]any{
			"operationId": oapi.Str(op.Raw["operationId"]),
			"deprecated":  oapi.Bool(op.Raw["deprecated"]),
		}
		var tags []string
		for _, t := range oapi.Arr(op.Raw["tags"]) {
			tags = append(tags, oapi.Str(t))
		}
		o["tags"] = tags
		var params []any
		for _, pv := range oapi.Arr(op.Raw["parameters"]) {
			pm := oapi.Obj(pv)
			params = append(params, map[string]any{"name": oapi.Str(pm["name"]), "in": oapi.Str(pm["in"]), "required": oapi.Bool(pm["required"]), "deprecated": oapi.Bool(pm["deprecated"]), "schema": normSchema(pm["schema"])})
		}
		o["parameters"] = params
		if rb := oapi.Obj(op.Raw["requestBody"]); rb != nil {
			o["requestBody"] = map[string]any{"required": oapi.Bool(rb["required"]), "content": normContent(rb["content"])}
		}
		resps := map[string]any{}
		for code, rv := range oapi.Obj(op.Raw["responses"]) {
			resps[code] = map[string]any{"content": normContent(oapi.Obj(rv)["content"])}
		}
		o["responses"] = resps
		var sec []any
		for _, sr := range oapi.Arr(op.Raw["security"]) {
			alt := map[string]any{}
			for name, scopes := range oapi.Obj(sr) {
				var sc []string
				for _, x := range oapi.Arr(scopes) {
					sc = append(sc, oapi.Str(x))
				}
				alt[name] = sc
			}
			sec = append(sec, alt)
		}
		o["security"] = sec
		ops[op.Key()] = o
	}
	out["operations"] = ops
	comps := map[string]any{}
	for name, sv := range d.Schemas() {
		comps[name] = normSchema(sv)
	}
	out["components"] = comps
	return out
}

// diff returns path-addressed differences between two normalised values.
func diffValues(path string, a, b any, out *[]string) {
	if len(*out) > 40 {
		return
	}
	switch av := a.(type) {
	case map[string]any:
		bv, ok := b.(map[string]any)
		if !ok {
			if b == nil && len(av) == 0 {
				return
			}
			*out = append(*out, fmt.Sprintf("%s: 3.0 has %v, 3.1 has %v", path, a, b))
			return
		}
		keys := map[string]bool{}
		for k := range av {
			keys[k] = true
		}
		for k := range bv {
			keys[k] = true
		}
		var ks []string
		for k := range keys {
			ks = append(ks, k)
		}
		sort.Strings(ks)
		for _, k := range ks {
			x, okA := av[k]
			y, okB := bv[k]
			switch {
			case okA && !okB:
				*out = append(*out, fmt.Sprintf("%s/%s: only in 3.0: %v", path, k, x))
			case !okA && okB:
				*out = append(*out, fmt.Sprintf("%s/%s: only in 3.1: %v", path, k, y))
			default:
				diffValues(path+"/"+k, x, y, out)
			}
		}
	case []any:
		bv, ok := b.([]any)
		if !ok || len(av) != len(bv) {
			if b == nil && len(av) == 0 {
				return
			}
			*out = append(*out, fmt.Sprintf("%s: 3.0 has %v, 3.1 has %v", path, a, b))
			return
		}
		for i := range av {
			diffValues(fmt.Sprintf("%s/%d", path, i), av[i], bv[i], out)
		}
	default:
		if fmt.Sprint(a) != fmt.Sprint(b) {
			if (a == nil && isEmpty(b)) || (b == nil && isEmpty(a)) {
				return
			}
			*out = append(*out, fmt.Sprintf("%s: 3.0 has %v, 3.1 has %v", path, a, b))
		}
	}
}

func isEmpty(v any) bool {
	switch t := v.(type) {
	case nil:
		return true
	case []any:
		return len(t) == 0
	case []string:
		return len(t) == 0
	case map[string]any:
		return len(t) == 0
	}
	return false
}

// classifyDiff attests the cause of a difference for known-finding signatures.
func classifyDiff(d string) string {
	switch {
	case strings.Contains(d, "/responses/default: only in 3.0"):
		return "3.0-only-default-response"
	case strings.HasSuffix(d, "/maxLength: only in 3.0: 0") || strings.HasSuffix(d, "/maxItems: only in 3.0: 0"):
		return "3.1-drops-zero-valued-length-bound"
	}
	// generic: the differing keyword and the side it is missing on
	head := d
	side := "differs"
	for _, mk := range []string{": only in 3.0", ": only in 3.1", ": 3.0 has"} {
		if i := strings.Index(d, mk); i >= 0 {
			head = d[:i]
			side = strings.TrimPrefix(strings.TrimPrefix(mk, ": "), "only in ")
			if mk == ": 3.0 has" {
				side = "differs"
			} else {
				side = "only-in-" + side
			}
			break
		}
	}
	last := head
	if i := strings.LastIndex(head, "/"); i >= 0 {
		last = head[i+1:]
	}
	return last + ":" + side
}

func c11(c *orch.Ctx) (*report.Result, error) {
	causes := map[string]int{}
	patterns := map[string]int{}
	rulesSeen := map[string]int{}
	return runSpecProp(c, specProp{
		id: "C11", nQuick: 80, nThorough: 800, floor: 0.5,
		gen:    genFromProfile("C11", "fullspec", func(i int, pr *synth.Profile) { pr.AllRules = true; pr.UsageValidators = true }),
		rule:   "projects drawn from the 'fullspec' profile with validators taken from every rule either converter understands (email uuid ip ipv4 ipv6 hostname date datetime gt gte lt lte min max len pattern minItems maxItems uniqueItems enum oneof required), applicable to the field/parameter type or not, on struct fields, parameters, bodies and form fields, plus security/deprecation/description combinations; the 3.0.0 and 3.1.0 documents of each accepted project are normalised to one neutral structure (DESIGN A.7) and deep-compared. distinct = distinct multisets of (validator rule x target schema type) per project",
		assume: []string{"dialect normal form of DESIGN A.7; descriptions, titles and summaries are not compared (the statement does not list them)"},
		check: func(res *report.Result, sr *SpecRun, dist *report.Distincter) {
			res.Evaluations++
			a, b := normDoc(sr.Ver["3.0.0"].Doc), normDoc(sr.Ver["3.1.0"].Doc)
			var diffs []string
			diffValues("", a, b, &diffs)
			var shape []string
			note := func(validate string, t synth.T) {
				for _, r := range strings.Split(validate, ",") {
					if r == "" {
						continue
					}
					name := strings.SplitN(r, "=", 2)[0]
					rulesSeen[name]++
					shape = append(shape, name+"@"+expSchemaShape(t))
				}
			}
			for _, st := range sr.P.Structs {
				for _, f := range st.Fields {
					note(f.Validate, f.Type)
				}
			}
			for _, cc := range sr.P.Controllers {
				for _, m := range cc.Methods {
					for _, pr := range m.Params {
						note(pr.Validate, pr.Type)
					}
				}
			}
			sort.Strings(shape)
			dist.Add(shape)
			seen := map[string]bool{}
			for _, d := range diffs {
				cause := classifyDiff(d)
				causes[cause]++
				patterns[diffPattern(d)]++
				if seen[cause] {
					continue
				}
				seen[cause] = true
				res.AddViolation("dialect-difference", map[string]string{"cause": cause}, fmt.Sprintf("[%s] %s", sr.P.Name, d), caseOf(sr.P, nil))
			}
			if len(res.Samples) < 2 {
				res.Samples = append(res.Samples, map[string]any{"project": sr.P.Name, "validator_sites": shape, "differences": len(diffs)})
			}
		},
		finish: func(res *report.Result, runs []*SpecRun) {
			res.Extra("differences_by_cause", causes)
			res.Extra("difference_patterns", patterns)
			res.Extra("validator_rules_exercised", rulesSeen)
		},
	})
}

func init() { Registry["C11"] = c11 }

var diffPatRe = regexp.MustCompile(`^.*/(enum|maxLength|minLength|min|max|xmin|xmax|format|pattern|minItems|maxItems|uniqueItems|required|type|nullable|default|deprecated|security|tags|operationId|\$ref|items|additionalProperties|allOf|properties/[^/:]+|parameters/\d+|requestBody|content/[^:]+)(: .*)$`)

// diffPattern erases project-specific names from a difference (evidence histogram only).
func diffPattern(d string) string {
	if m := diffPatRe.FindStringSubmatch(d); m != nil {
		tail := m[2]
		if len(tail) > 60 {
			tail = tail[:60]
		}
		return "…/" + m[1] + tail
	}
	if len(d) > 80 {
		d = d[:80]
	}
	return d
}
