package props

import (
	"fmt"
	"sort"
	"strings"

	"verif/harness/lab"
	"verif/harness/orch"
	"verif/harness/report"
	"verif/harness/rng"
	"verif/harness/synth"
)

func c02(c *orch.Ctx) (*report.Result, error) {
	res := &report.Result{Property: "C02"}
	bin, err := c.CLI()
	if err != nil {
		return nil, err
	}
	l, err := lab.New(c)
	if err != nil {
		return nil, err
	}
	n := 10
	if !c.Quick() {
		n = 100
	}
	var projects []*synth.Project
	if c.Replay != "" {
		var rc struct {
			Project *synth.Project `json:"project"`
		}
		if err := loadCase(c.Replay, &rc); err != nil {
			return nil, err
		}
		projects = []*synth.Project{rc.Project}
	} else {
		projects = genRouterProjects(c, "C02", n, func(i int, pr *synth.Profile) {
			pr.ParamIn = []string{"path", "query"}
			pr.ParamTypeLevel = 0
			pr.Validators = false
			pr.Models = 0
			pr.CustomErrors = false
			pr.CtxParams = false
			pr.MaxControllers, pr.MaxMethods = 4, 6
			if i%2 == 1 {
				pr.RouteStyle = "slashy"
			}
			pr.BareControllers = i%3 == 0
		})
	}
	type probeReq struct {
		br   BuiltRequest
		kind string // positive | neg-verb | neg-extra-segment | neg-literal
		rr   routeRef
	}
	dist := report.NewDistincter()
	counts := map[string]int{}
	enginesSeen := map[string]int{}
	running := 0
	rps := make([]*RouterProject, len(projects))
	orch.ParallelMap(len(projects), 4, func(i int) { rps[i] = BuildRouterProject(c, l, bin, projects[i], RouterOpts{}) })
	for _, rp := range rps {
		p := rp.P
		doubled := fmt.Sprint(p.Features["doubled-slash"] || p.Features["trailing-slash"])
		if len(rp.Engines) == 0 {
			res.Inc("no generated router compiled or project rejected: " + firstLine(rejectionReason(rp.Gen["gin"])))
			continue
		}
		running++
		r := rng.New(c.Seed, "C02-req", p.Name)
		var reqs []probeReq
		k := 0
		eps := endpointsOf(p)
		// which (verb, template) pairs are annotated at all
		annotated := map[string]bool{}
		for _, rr := range eps {
			annotated[rr.m.Verb+" "+synth.FullRoute(rr.c, rr.m)] = true
		}
		for _, rr := range eps {
			k++
			br, ok := buildRequest(r, p, rr.c, rr.m, fmt.Sprintf("%s-r%04d", p.Name, k), reqPlan{Class: "typical"})
			if !ok {
				continue
			}
			reqs = append(reqs, probeReq{br, "positive", rr})
			tmpl := synth.FullRoute(rr.c, rr.m)
			// (a) another verb on the same concrete path
			for _, v := range []string{"GET", "POST", "PUT", "DELETE", "PATCH"} {
				if !annotated[v+" "+tmpl] {
					nb := br
					nb.Req.Verb = v
					nb.Req.Rid = fmt.Sprintf("%s-nv%04d", p.Name, k)
					nb.Negative = true
					nb.Why = "same path, verb " + v + " not annotated"
					reqs = append(reqs, probeReq{nb, "neg-verb", rr})
					break
				}
			}
			// (b) one more literal segment - only below a literal last segment: echo's trailing :param
			// is greedy across slashes, which is the engine's routing semantics, not gleece's (§3 rule 3)
			segs := strings.Split(strings.TrimSuffix(tmpl, "/"), "/")
			lastIsParam := strings.HasPrefix(segs[len(segs)-1], "{")
			nb := br
			pth, qs, _ := strings.Cut(br.Req.Target, "?")
			if !lastIsParam {
				nb.Req.Target = strings.TrimSuffix(pth, "/") + "/zzextra"
				if qs != "" {
					nb.Req.Target += "?" + qs
				}
				nb.Req.Rid = fmt.Sprintf("%s-ne%04d", p.Name, k)
				nb.Negative = true
				nb.Why = "one extra literal segment"
				reqs = append(reqs, probeReq{nb, "neg-extra-segment", rr})
			}
			// (c) the method's own literal altered
			lit := strings.ToLower(rr.m.Name)
			if strings.Contains(pth, "/"+lit) {
				nc := br
				nc.Req.Target = strings.Replace(pth, "/"+lit, "/"+lit+"zz", 1)
				if qs != "" {
					nc.Req.Target += "?" + qs
				}
				nc.Req.Rid = fmt.Sprintf("%s-nl%04d", p.Name, k)
				nc.Negative = true
				nc.Why = "literal segment altered"
				reqs = append(reqs, probeReq{nc, "neg-literal", rr})
			}
		}
		gor := 0
		if !c.Quick() {
			gor = 32
		}
		wl := Workload{Goroutines: gor}
		for _, pq := range reqs {
			wl.Requests = append(wl.Requests, pq.br.Req)
		}
		run, err := rp.Run(wl, gor > 0)
		if err != nil {
			res.Inc("probe did not run: " + firstLine(err.Error()))
			continue
		}
		for _, e := range run.Events {
			if e.Ev == "register_panic" {
				res.AddViolation("router-registration-panics", map[string]string{"engine": e.Eng}, fmt.Sprintf("[%s %s] RegisterRoutes panicked: %s", p.Name, e.Eng, firstLine(e.Detail)), map[string]any{"project": p})
			}
		}
		documented := map[string]bool{}
		if rp.Spec != nil {
			for _, op := range rp.Spec.Operations() {
				documented[strings.ToUpper(op.Verb)+" "+op.Path] = true
			}
		}
		for _, eng := range rp.Engines {
			enginesSeen[eng]++
			served := map[string]bool{}
			for _, pq := range reqs {
				suffixes := []string{""}
				for g := 0; g < gor; g++ {
					suffixes = append(suffixes, fmt.Sprintf("#g%d", g))
				}
				for _, sfx := range suffixes {
					rid := pq.br.Req.Rid + "@" + eng + sfx
					resp := run.resp(rid)
					if resp == nil {
						if sfx == "" {
							res.Inc("no response recorded")
						}
						continue
					}
					res.Evaluations++
					counts[pq.kind]++
					calls := run.calls(rid)
					cs := map[string]any{"project": p, "request": pq.br, "engine": eng}
					label := fmt.Sprintf("[%s %s %s %s (%s)]", p.Name, eng, pq.br.Req.Verb, pq.br.Req.Target, pq.br.Why)
					tmpl := synth.FullRoute(pq.rr.c, pq.rr.m)
					if pq.kind == "positive" {
						switch {
						case len(calls) == 0:
							res.AddViolation("annotated-route-not-served", map[string]string{"engine": eng, "doubled_slash": doubled}, fmt.Sprintf("%s %s.%s is annotated %s %s but the request reached no controller (status %d)", label, pq.rr.c.Name, pq.rr.m.Name, pq.rr.m.Verb, tmpl, resp.Status), cs)
						case len(calls) > 1:
							res.AddViolation("request-dispatched-more-than-once", map[string]string{"engine": eng}, fmt.Sprintf("%s %d calls recorded for one request", label, len(calls)), cs)
						case calls[0].Ctl != pq.br.Ctl || calls[0].Method != pq.br.Method:
							res.AddViolation("dispatched-to-wrong-method", map[string]string{"engine": eng}, fmt.Sprintf("%s reached %s.%s, annotated for %s.%s", label, calls[0].Ctl, calls[0].Method, pq.br.Ctl, pq.br.Method), cs)
						default:
							served[pq.rr.m.Verb+" "+tmpl] = true
						}
					} else if len(calls) > 0 {
						res.AddViolation("unannotated-route-served", map[string]string{"engine": eng, "probe": pq.kind}, fmt.Sprintf("%s reached %s.%s (args %s) although no method is annotated for this verb/path", label, calls[0].Ctl, calls[0].Method, argsString(calls[0])), cs)
					}
				}
				dist.Add(eng, pq.kind, strings.Count(synth.FullRoute(pq.rr.c, pq.rr.m), "/"), strings.Count(synth.FullRoute(pq.rr.c, pq.rr.m), "{"), pq.rr.m.Hidden, p.FeatureList())
			}
			// served \ documented == hidden
			if rp.Spec != nil {
				for _, rr := range eps {
					key := rr.m.Verb + " " + synth.FullRoute(rr.c, rr.m)
					switch {
					case rr.m.Hidden && documented[key]:
						// C01's subject; reported there
					case !rr.m.Hidden && documented[key] && !served[key]:
						// already reported as annotated-route-not-served
					}
				}
				var extra []string
				for key := range served {
					if !documented[key] {
						hidden := false
						for _, rr := range eps {
							if rr.m.Verb+" "+synth.FullRoute(rr.c, rr.m) == key && rr.m.Hidden {
								hidden = true
							}
						}
						if !hidden {
							extra = append(extra, key)
						}
					}
				}
				sort.Strings(extra)
				if len(extra) > 0 {
					res.AddViolation("served-but-undocumented-non-hidden-route", map[string]string{"engine": eng}, fmt.Sprintf("[%s %s] served and not hidden, yet missing from the spec of the same run: %v", p.Name, eng, extra), map[string]any{"project": p})
				}
			}
		}
		if gor > 0 {
			for _, blk := range run.raceInGenerated(p.ModPath) {
				res.AddViolation("data-race-in-generated-router", nil, fmt.Sprintf("[%s] %s", p.Name, blk), map[string]any{"project": p})
			}
			counts["race-reports-total"] += run.RaceCount
		}
		if len(res.Samples) < 3 && len(reqs) > 2 {
			res.Samples = append(res.Samples, map[string]any{"project": p.Name, "features": p.FeatureList(), "engines": rp.Engines, "positive": reqs[0].br.Req, "negative": reqs[1].br.Req, "events_positive": run.ByRid[reqs[0].br.Req.Rid+"@"+rp.Engines[0]]})
		}
	}
	res.Distinct = dist.N()
	res.Rule = "multi-controller projects (string parameters only; every second project with doubled / trailing / missing slashes, every third with undocumented controllers) x 5 engines; per annotated method (hidden ones included) one positive request that must yield exactly one call event naming that controller and method, plus negative probes that differ by an un-annotated verb, by one extra literal segment or by an altered literal segment and must yield no call event; served set vs the spec written in the same run (difference must be the hidden routes). Thorough tier replays everything from 32 goroutines under the race detector with a unique request id per request. distinct = distinct (engine, probe kind, #segments, #params, hidden, feature set)"
	res.Extra("observations", counts)
	res.Extra("projects_with_a_running_router", running)
	res.Extra("engines_exercised", enginesSeen)
	res.Assumptions = []string{"negative probes never rely on trailing-slash, case, HEAD/OPTIONS or redirect behaviour of an engine (DESIGN §3 rule 3); only a call event counts as served"}
	if running == 0 && c.Replay == "" {
		res.Fatal = "no project produced a running router"
	}
	return res, nil
}

func init() { Registry["C02"] = c02 }

func argsString(e Event) string {
	var parts []string
	for _, a := range e.Args {
		parts = append(parts, string(a.V))
	}
	return strings.Join(parts, ", ")
}
