package props

import (
	"fmt"
	"strings"

	"verif/harness/orch"
	"verif/harness/report"
)

func isOutput(path string) bool { return strings.HasPrefix(path, "dist/") }

func c10(c *orch.Ctx) (*report.Result, error) {
	res := &report.Result{Property: "C10"}
	n := 4 * len(PerturbationIDs)
	if !c.Quick() {
		n = 40 * len(PerturbationIDs)
	}
	cases, err := RunPertLab(c, "C10", n, PerturbationIDs, true)
	if err != nil {
		return nil, err
	}
	dist := report.NewDistincter()
	byPert := map[string]map[string]int{}
	count := func(id, outcome string) {
		if byPert[id] == nil {
			byPert[id] = map[string]int{}
		}
		byPert[id][outcome]++
	}
	for _, pc := range cases {
		pt := pc.Pt
		where := map[string]string{"perturbation": pt.ID}
		if pc.Val == nil {
			res.Inc("in-process validation did not complete: " + firstLine(pc.ValErr))
			continue
		}
		v := pc.Val
		if v.Panic != "" {
			res.AddViolation("panic-in-validation", where, fmt.Sprintf("[%s %s] %s", pc.P.Name, pt.ID, v.Panic), pc.caseJSON())
			continue
		}
		if v.ConfigErr != "" || v.PipelineErr != "" {
			res.Inc("generated project did not load (generator artefact): " + firstLine(v.ConfigErr+v.PipelineErr))
			continue
		}
		res.Evaluations++
		dist.Add(pt.ID, pc.Noise > 0, len(pc.P.Controllers), pc.CLI.Exit)
		rejectedByDiag := hasErrorDiag(v)
		// a hard error while building the graph / validating is a rejection too, but not by a diagnostic
		hardErr := v.GraphErr != "" || v.ValidateErr != ""
		switch pt.Expect {
		case "reject":
			switch {
			case rejectedByDiag:
				count(pt.ID, "rejected-by-diagnostic")
			case hardErr:
				count(pt.ID, "rejected-by-error")
				if pt.Listed {
					res.Inc("ill-linked route rejected by a hard error rather than a diagnostic (not judged)")
				}
			default:
				count(pt.ID, "ACCEPTED")
				if pt.Listed {
					res.AddViolation("ill-linked-route-accepted", where, fmt.Sprintf("[%s %s: %s] validation produced no error-severity diagnostic (diagnostics: %s); CLI exit %d, files written: %v", pc.P.Name, pt.ID, pt.Rule, diagSummary(v), pc.CLI.Exit, pc.Created), pc.caseJSON())
				}
			}
		case "accept":
			if rejectedByDiag || hardErr {
				count(pt.ID, "REJECTED")
				res.AddViolation("well-formed-route-rejected", where, fmt.Sprintf("[%s %s: %s] rejected: %s %s", pc.P.Name, pt.ID, pt.Rule, diagSummary(v), firstLine(v.GraphErr+v.ValidateErr)), pc.caseJSON())
			} else {
				count(pt.ID, "accepted")
			}
		}
		// blocking half: any error-severity diagnostic => command fails and writes neither routes nor spec
		if rejectedByDiag {
			var outs []string
			for _, f := range pc.Created {
				if isOutput(f) {
					outs = append(outs, f)
				}
			}
			if pc.CLI.Exit == 0 {
				res.AddViolation("exit-0-despite-error-diagnostic", where, fmt.Sprintf("[%s %s] error-severity diagnostics exist (%s) but the command exited 0", pc.P.Name, pt.ID, diagSummary(v)), pc.caseJSON())
			}
			if len(outs) > 0 {
				res.AddViolation("output-written-despite-error-diagnostic", where, fmt.Sprintf("[%s %s] error-severity diagnostics exist but the run created/modified %v", pc.P.Name, pt.ID, outs), pc.caseJSON())
			}
		}
		if len(res.Samples) < 4 && pc.Pt.ID != "P0" && pc.Noise > 0 {
			res.Samples = append(res.Samples, map[string]any{"perturbation": pt.ID, "rule": pt.Rule, "expected": pt.Expect, "diagnostics": diagSummary(v), "cli_exit": pc.CLI.Exit, "files_written": pc.Created})
		}
	}
	res.Distinct = dist.N()
	res.Rule = fmt.Sprintf("%d cases: a generated well-formed multi-controller base project (profile 'pertbase') plus one of %d descriptor edits with a known verdict (Appendix H: P1-P16 break one rule C10's statement names, P17-P21 are blocking-half/warning cases, PC1-PC4 and P0/P3 are positive controls), rendered at random vertical offsets; judged on (a) presence/absence of an error-severity diagnostic from the real in-process Validate(), (b) CLI exit status, (c) files created below dist/ per before/after snapshot. distinct = distinct (perturbation, noise?, #controllers, exit status)", n, len(PerturbationIDs))
	res.Extra("outcomes_by_perturbation", byPert)
	res.Assumptions = []string{"the perturbation operator is the ground truth: each is tagged with the rule it breaks and the verdict that follows from C10's statement", "a rejection through a hard error instead of a diagnostic is counted, not judged"}
	return res, nil
}

func init() { Registry["C10"] = c10 }
