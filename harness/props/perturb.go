package props

import (
	"fmt"
	"math/rand"
	"strings"

	"verif/harness/synth"
)

// DiagExpect is one diagnostic the perturbation must produce (C18). Anchor is a key of the
// renderer's position map; Mode says how the range relates to it.
type DiagExpect struct {
	Code     string `json:"code"`
	Severity int    `json:"severity"`      // 1 error, 2 warning
	Anchor   string `json:"anchor"`        // positions key, or "" when only the code is judged
	Sub      string `json:"sub,omitempty"` // substring of the anchor's value the range must cover exactly (e.g. "{x}")
	Mode     string `json:"mode"`          // exact | line | none
}

type Perturbation struct {
	ID      string       `json:"id"`
	Rule    string       `json:"rule"`
	Expect  string       `json:"expect"` // reject | accept
	Listed  bool         `json:"listed"` // the rule is one C10's statement names
	Ctl     string       `json:"ctl"`
	Method  string       `json:"method"`
	Diags   []DiagExpect `json:"diags,omitempty"`
	Applied bool         `json:"applied"`
}

const (
	sevErr  = 1
	sevWarn = 2
)

// targetMethod builds a well-formed method whose shape is varied by the PRNG; every operator edits
// a copy of it. It lives in controller 0 so that it sits among unrelated, generated routes.
func targetMethod(r *rand.Rand, p *synth.Project, withBody, withForm bool) synth.Method {
	m := synth.Method{Name: "Target", Verb: "POST", Route: "/target"}
	if !withBody && !withForm {
		m.Verb = []string{"GET", "POST", "PUT", "DELETE", "PATCH"}[r.Intn(5)]
	}
	prims := []string{"string", "int", "int64", "bool", "float64", "uint32"}
	np := 1 + r.Intn(2)
	for i := 0; i < np; i++ {
		name := []string{"pid", "key"}[i]
		m.Params = append(m.Params, synth.Param{GoName: name, Type: synth.Prim(prims[r.Intn(len(prims))]), In: "path"})
		switch r.Intn(3) {
		case 0:
			m.Route += "/{" + name + "}"
		case 1:
			m.Route += "/seg" + fmt.Sprint(i) + "/{" + name + "}"
		default:
			m.Route += "/" + name + "s/{" + name + "}" // the name also occurs as plain text before its {placeholder}
		}
	}
	m.Params = append(m.Params, synth.Param{GoName: "q", Type: synth.Prim(prims[r.Intn(len(prims))]), In: "query", Descr: []string{"", "The q", "Ünï: 説明"}[r.Intn(3)]})
	if r.Intn(2) == 0 {
		m.Params = append(m.Params, synth.Param{GoName: "hdr", Type: synth.Prim("string"), In: "header", Wire: "X-Hdr"})
	}
	if withBody {
		m.Params = append(m.Params, synth.Param{GoName: "payload", Type: synth.Slice(synth.Prim("string")), In: "body"})
	}
	if withForm {
		m.Params = append(m.Params, synth.Param{GoName: "field1", Type: synth.Prim("string"), In: "form"})
	}
	r.Shuffle(len(m.Params), func(i, j int) { m.Params[i], m.Params[j] = m.Params[j], m.Params[i] })
	if r.Intn(3) > 0 {
		t := synth.Prim(prims[r.Intn(len(prims))])
		m.Ret = &t
	}
	if r.Intn(3) == 0 {
		m.Descr = "Target method. With (parens) — ünïcode 説明"
	}
	return m
}

var PerturbationIDs = []string{"P0", "P1", "P2", "P3", "P3b", "P3c", "P22", "P22d", "P15d", "P16d", "P18d", "P6d", "PX1", "PX2", "PX3", "PX4", "PX5", "PE1", "PE2", "PE3", "PS1", "PS2", "PS3", "PS0", "PM1", "P4", "P5", "P6", "P7", "P8q", "P8h", "P8b", "P8f", "P9", "P10", "P11s", "P11m", "P11t", "P12", "P13a", "P13b", "P14a", "P14b", "P15", "P16", "P17", "P18", "P20", "P21", "PC1", "PC2", "PC3", "PC4", "PK1"}

func paramIdx(m *synth.Method, name string) int {
	for i, p := range m.Params {
		if p.GoName == name {
			return i
		}
	}
	return -1
}

// ApplyPerturbation adds the (possibly perturbed) Target method to controller 0 of p.
func ApplyPerturbation(p *synth.Project, id string, r *rand.Rand) *Perturbation {
	c := &p.Controllers[0]
	pt := &Perturbation{ID: id, Ctl: c.Name, Method: "Target", Applied: true, Listed: true}
	withBody := id == "P8b" || id == "P9" || id == "P10"
	withForm := id == "P8f" || id == "PS3"
	m := targetMethod(r, p, withBody, withForm)
	// a parameterised controller prefix must be bound by every method
	if strings.Contains(c.Route, "{tenant}") && id != "P3b" && id != "P3c" {
		m.Params = append(m.Params, synth.Param{GoName: "tenant", Type: synth.Prim("string"), In: "path"})
	}
	key := "m/" + c.Name + ".Target"
	pathName := "pid"
	switch id {
	case "P0":
		pt.Rule, pt.Expect = "unperturbed well-formed route", "accept"
	case "P1":
		pt.Rule, pt.Expect = "delete @Path(x), keep {x} and the parameter", "reject"
		m.DropAnn = append(m.DropAnn, "Path:"+pathName)
		pt.Diags = []DiagExpect{
			{Code: "linker-route-missing-path-reference", Severity: sevErr, Anchor: key + "/ann/Route/value", Sub: "{" + pathName + "}", Mode: "exact"},
			{Code: "linker-unreferenced-parameter", Severity: sevErr, Anchor: key + "/param/" + pathName, Mode: "exact"},
		}
	case "P2":
		pt.Rule, pt.Expect = "delete {x} from the route, keep @Path(x) and the parameter", "reject"
		m.Route = strings.Replace(m.Route, "/{"+pathName+"}", "/fixed", 1)
	case "P3":
		pt.Rule, pt.Expect = "{x} lives in the controller route, @Path(x) on every method", "accept"
		if !strings.Contains(c.Route, "{tenant}") {
			c.Route = "/{tenant}" + c.Route
			for mi := range c.Methods {
				if c.Methods[mi].IsEndpoint() {
					c.Methods[mi].Params = append(c.Methods[mi].Params, synth.Param{GoName: "tenant", Type: synth.Prim("string"), In: "path"})
				}
			}
			m.Params = append(m.Params, synth.Param{GoName: "tenant", Type: synth.Prim("string"), In: "path"})
		}
	case "P3b":
		pt.Rule, pt.Expect = "{x} in the controller route, a method without any @Path bound to x", "reject"
		if !strings.Contains(c.Route, "{tenant}") {
			c.Route = "/{tenant}" + c.Route
			for mi := range c.Methods {
				if c.Methods[mi].IsEndpoint() {
					c.Methods[mi].Params = append(c.Methods[mi].Params, synth.Param{GoName: "tenant", Type: synth.Prim("string"), In: "path"})
				}
			}
		}
	case "P3c":
		pt.Rule, pt.Expect = "{x} in the controller route, a method with no URL parameter and no @Path of its own", "reject"
		if !strings.Contains(c.Route, "{tenant}") {
			c.Route = "/{tenant}" + c.Route
			for mi := range c.Methods {
				if c.Methods[mi].IsEndpoint() {
					c.Methods[mi].Params = append(c.Methods[mi].Params, synth.Param{GoName: "tenant", Type: synth.Prim("string"), In: "path"})
				}
			}
		}
		var keep []synth.Param
		for _, pr := range m.Params {
			if pr.In != "path" {
				keep = append(keep, pr)
			}
		}
		m.Params = keep
		m.Route = "/target"
	case "P22", "P22d":
		pt.Rule, pt.Expect = "one parameter referenced by two annotations (@Query(q) and @Header(q))", "reject"
		if id == "P22d" {
			pt.Rule += " where the first carries an unknown property (warning-level)"
			m.DropAnn = append(m.DropAnn, "Query:q")
			m.ExtraAnn = append(m.ExtraAnn, "// @Query(q, { example: 'abc' })")
		}
		m.ExtraAnn = append(m.ExtraAnn, "// @Header(q)")
	case "P15d":
		pt.Rule, pt.Expect = "unsupported verb on a @Method that also carries an unknown property (warning-level)", "reject"
		m.Verb = []string{"HEAD", "OPTIONS", "TRACE", "CONNECT"}[r.Intn(4)]
		m.DropAnn = append(m.DropAnn, "Method")
		m.ExtraAnn = append(m.ExtraAnn, "// @Method("+m.Verb+", { idempotent: true })")
	case "P16d":
		pt.Rule, pt.Expect = "invalid verb on a @Method that also carries an unknown property (warning-level)", "reject"
		m.Verb = []string{"FETCH", "get"}[r.Intn(2)]
		m.DropAnn = append(m.DropAnn, "Method")
		m.ExtraAnn = append(m.ExtraAnn, "// @Method("+m.Verb+", { note: 'x' })")
	case "P18d":
		pt.Rule, pt.Expect, pt.Listed = "@Response(abc) with an unknown property", "reject", false
		m.ExtraAnn = append(m.ExtraAnn, "// @Response(abc, { x: 1 })")
	case "PX1":
		pt.Rule, pt.Expect = "a URL parameter no @Path binds, repeated in the template ({ghost} twice)", "reject"
		m.Route += "/a/{ghost}/b/{ghost}"
	case "PX2":
		pt.Rule, pt.Expect = "two @Path annotations whose name property is not a string", "reject"
		m.ExtraAnn = append(m.ExtraAnn, "// @Path(alias1, { name: 5 })", "// @Path(alias2, { name: 6 })")
	case "PX3":
		pt.Rule, pt.Expect = "a @Path with a non-string name on something that is not a parameter, next to an unbound URL parameter", "reject"
		m.ExtraAnn = append(m.ExtraAnn, "// @Path(ghostRef, { name: 5 })")
		m.Route += "/{unbound}"
	case "PX4":
		pt.Rule, pt.Expect = "@Path(x) deleted and another parameter renamed (two independent link defects in one method)", "reject"
		m.DropAnn = append(m.DropAnn, "Path:"+pathName)
		i := paramIdx(&m, "q")
		m.Params[i].AnnName = "q"
		m.Params[i].GoName = "qq"
	case "PE1", "PE2":
		pt.Rule, pt.Expect, pt.Listed = "the last result is a struct that does not embed error", "reject", true
		if p.Struct(c.Pkg, "TargetBad") == nil {
			p.Structs = append(p.Structs, synth.Struct{Name: "TargetBad", Pkg: c.Pkg, Fields: []synth.Field{{GoName: "Why", Type: synth.Prim("string"), JSONName: "why"}}})
		}
		m.ErrType, m.ErrPtr = "TargetBad", false
		if id == "PE2" {
			pt.Rule += " while a controller of another package returns its own, valid error type of the same name"
			for ci := 1; ci < len(p.Controllers); ci++ {
				c2 := &p.Controllers[ci]
				if c2.Pkg == c.Pkg || len(c2.Methods) == 0 {
					continue
				}
				if p.Struct(c2.Pkg, "TargetBad") == nil {
					p.Structs = append(p.Structs, synth.Struct{Name: "TargetBad", Pkg: c2.Pkg, IsError: true, Fields: []synth.Field{{GoName: "Why", Type: synth.Prim("string"), JSONName: "why"}}})
				}
				for mi := range c2.Methods {
					if c2.Methods[mi].IsEndpoint() {
						c2.Methods[mi].ErrType, c2.Methods[mi].ErrPtr = "TargetBad", false
					}
				}
				break
			}
		}
	case "PE3":
		// the mirror image of PE2: Target is fine, the offender lives in a controller of another package
		pt.Rule, pt.Expect, pt.Listed = "a controller of another package returns a struct that does not embed error while Target returns its own valid error type of the same name", "reject", true
		applied := false
		for ci := 1; ci < len(p.Controllers); ci++ {
			c2 := &p.Controllers[ci]
			if c2.Pkg == c.Pkg || len(c2.Methods) == 0 {
				continue
			}
			if p.Struct(c2.Pkg, "TargetBad") == nil {
				p.Structs = append(p.Structs, synth.Struct{Name: "TargetBad", Pkg: c2.Pkg, Fields: []synth.Field{{GoName: "Why", Type: synth.Prim("string"), JSONName: "why"}}})
			}
			for mi := range c2.Methods {
				if c2.Methods[mi].IsEndpoint() && !applied {
					c2.Methods[mi].ErrType, c2.Methods[mi].ErrPtr = "TargetBad", false
					applied = true
				}
			}
			break
		}
		if !applied {
			pt.Applied = false
			pt.Rule, pt.Expect = "unperturbed well-formed route (PE3 needs a second controller package)", "accept"
			break
		}
		if p.Struct(c.Pkg, "TargetBad") == nil {
			p.Structs = append(p.Structs, synth.Struct{Name: "TargetBad", Pkg: c.Pkg, IsError: true, Fields: []synth.Field{{GoName: "Why", Type: synth.Prim("string"), JSONName: "why"}}})
		}
		m.ErrType, m.ErrPtr = "TargetBad", false
	case "PM1":
		pt.Rule, pt.Expect, pt.Listed = "enforceSecurityOnAllRoutes with a route that has no security at any level", "reject", false
		p.Config.Enforce, p.Config.DefaultSecurity = true, nil
		for ci := range p.Controllers {
			cc := &p.Controllers[ci]
			cc.Security = nil
			for mi := range cc.Methods {
				if cc.Methods[mi].IsEndpoint() {
					cc.Methods[mi].Security = []synth.Security{{Scheme: p.Config.Schemes[0].Name, Scopes: []string{"read"}}}
				}
			}
		}
		m.Security = nil
	case "PS0":
		pt.Rule, pt.Expect = "positive control: a slice of primitives as query parameter", "accept"
		m.Params[paramIdx(&m, "q")].Type = synth.Slice(synth.Prim("string"))
	case "PS1", "PS2", "PS3":
		// slices are only allowed in the query (and as body)
		pt.Expect = "reject"
		switch id {
		case "PS1":
			pt.Rule = "a slice of primitives as header parameter"
			if paramIdx(&m, "hdr") < 0 {
				m.Params = append(m.Params, synth.Param{GoName: "hdr", Type: synth.Prim("string"), In: "header", Wire: "X-Hdr"})
			}
			m.Params[paramIdx(&m, "hdr")].Type = synth.Slice(synth.Prim("string"))
		case "PS2":
			pt.Rule = "a slice of primitives as path parameter"
			m.Params[paramIdx(&m, pathName)].Type = synth.Slice(synth.Prim("int"))
		case "PS3":
			pt.Rule = "a slice of primitives as form field"
			m.Params[paramIdx(&m, "field1")].Type = synth.Slice(synth.Prim("string"))
		}
	case "PX5":
		pt.Rule, pt.Expect = "two unreferenced parameters declared as one grouped field that spans two source lines", "reject"
		m.Params = append(m.Params, synth.Param{GoName: "mlFirst", Type: synth.Prim("string"), In: "query", BreakBefore: true}, synth.Param{GoName: "mlSecond", Type: synth.Prim("string"), In: "query", BreakBefore: true})
		m.DropAnn = append(m.DropAnn, "Query:mlFirst", "Query:mlSecond")
		m.GroupParams = true
	case "P6d":
		pt.Rule, pt.Expect = "a second @Path(x) carrying an unknown property (warning-level)", "reject"
		m.ExtraAnn = append(m.ExtraAnn, "// @Path("+pathName+", { example: 1 })")
	case "P4":
		pt.Rule, pt.Expect = "@Path(x,{name:\"y\"}) while the template has {x}", "reject"
		i := paramIdx(&m, pathName)
		m.Params[i].Wire = "other"
		pt.Diags = []DiagExpect{{Code: "linker-path-annotation-invalid-reference", Severity: sevErr, Anchor: key + "/ann/Path:" + pathName + "/line", Mode: "line"}}
	case "P5":
		pt.Rule, pt.Expect = "{x} twice in the template", "reject"
		m.Route += "/again/{" + pathName + "}"
		pt.Diags = []DiagExpect{{Code: "linker-duplicate-url-parameter", Severity: sevErr, Anchor: key + "/ann/Route/value", Sub: "{" + pathName + "}", Mode: "exact"}}
	case "P6":
		pt.Rule, pt.Expect = "a second @Path(x)", "reject"
		m.ExtraAnn = append(m.ExtraAnn, "// @Path("+pathName+")")
		pt.Diags = []DiagExpect{{Code: "linker-duplicate-path-param", Severity: sevErr, Anchor: key + "/extra/0/line", Mode: "line"}}
	case "P7":
		pt.Rule, pt.Expect = "rename the Go parameter, annotation unchanged", "reject"
		i := paramIdx(&m, "q")
		m.Params[i].AnnName = "q"
		m.Params[i].GoName = "qq"
		pt.Diags = []DiagExpect{
			{Code: "linker-path-annotation-invalid-reference", Severity: sevErr, Anchor: key + "/ann/Query:qq/value", Mode: "exact"},
			{Code: "linker-unreferenced-parameter", Severity: sevErr, Anchor: key + "/param/qq", Mode: "exact"},
		}
	case "P8q", "P8h", "P8b", "P8f":
		name := map[string]string{"P8q": "q", "P8h": "hdr", "P8b": "payload", "P8f": "field1"}[id]
		ann := map[string]string{"P8q": "Query", "P8h": "Header", "P8b": "Body", "P8f": "FormField"}[id]
		if paramIdx(&m, name) < 0 {
			m.Params = append(m.Params, synth.Param{GoName: "hdr", Type: synth.Prim("string"), In: "header", Wire: "X-Hdr"})
		}
		pt.Rule, pt.Expect = "delete @"+ann+"("+name+"), keep the parameter", "reject"
		m.DropAnn = append(m.DropAnn, ann+":"+name)
		pt.Diags = []DiagExpect{{Code: "linker-unreferenced-parameter", Severity: sevErr, Anchor: key + "/param/" + name, Mode: "exact"}}
	case "P9":
		pt.Rule, pt.Expect = "a second @Body parameter", "reject"
		p2 := synth.Param{GoName: "payload2", Type: synth.Slice(synth.Prim("string")), In: "body"}
		if i := paramIdx(&m, "payload"); i >= 0 && r.Intn(2) == 0 {
			// directly behind the first one
			m.Params = append(m.Params[:i+1], append([]synth.Param{p2}, m.Params[i+1:]...)...)
		} else {
			m.Params = append(m.Params, p2)
		}
	case "P10":
		pt.Rule, pt.Expect = "@Body together with @FormField", "reject"
		m.Params = append(m.Params, synth.Param{GoName: "field9", Type: synth.Prim("string"), In: "form"})
		pt.Diags = []DiagExpect{{Code: "annotation-mutually-exclusive", Severity: sevErr, Mode: "none"}}
	case "P11s", "P11m", "P11t":
		i := paramIdx(&m, "q")
		switch id {
		case "P11s":
			st := synth.Struct{Name: "QueryShape", Pkg: c.Pkg, Fields: []synth.Field{{GoName: "A", Type: synth.Prim("string"), JSONName: "a"}}}
			p.Structs = append(p.Structs, st)
			m.Params[i].Type = synth.Named(c.Pkg, "QueryShape")
			pt.Rule = "a struct as query parameter"
		case "P11m":
			m.Params[i].Type = synth.MapOf(synth.Prim("string"))
			pt.Rule = "a map as query parameter"
		case "P11t":
			m.Params[i].Type = synth.T{K: "time"}
			pt.Rule = "time.Time as query parameter"
		}
		if r.Intn(2) == 0 && paramIdx(&m, "hdr") >= 0 && id == "P11s" {
			// same defect on the header instead
			m.Params[i].Type = synth.Prim("string")
			m.Params[paramIdx(&m, "hdr")].Type = synth.Named(c.Pkg, "QueryShape")
			pt.Rule = "a struct as header parameter"
			pt.Diags = []DiagExpect{{Code: "receiver-parameter-not-primitive", Severity: sevErr, Anchor: key + "/param/hdr", Mode: "exact"}}
		} else {
			pt.Diags = []DiagExpect{{Code: "receiver-parameter-not-primitive", Severity: sevErr, Anchor: key + "/param/q", Mode: "exact"}}
		}
		pt.Expect = "reject"
	case "P12":
		pt.Rule, pt.Expect = "a slice as path parameter", "reject"
		i := paramIdx(&m, pathName)
		m.Params[i].Type = synth.Slice(synth.Prim("string"))
		pt.Diags = []DiagExpect{{Code: "receiver-parameter-not-primitive", Severity: sevErr, Anchor: key + "/param/" + pathName, Mode: "exact"}}
	case "P13a", "P13b":
		var ps []string
		for _, pr := range m.Params {
			ps = append(ps, pr.GoName+" "+pr.Type.GoExpr(c.Pkg, func(string) string { return "x" }))
		}
		if id == "P13a" {
			pt.Rule = "no result at all"
			m.RawSig = "(" + strings.Join(ps, ", ") + ")"
			m.RawBody = "\t_ = 0"
		} else {
			pt.Rule = "three results"
			m.RawSig = "(" + strings.Join(ps, ", ") + ") (string, int, error)"
			m.RawBody = "\treturn \"\", 0, nil"
		}
		pt.Expect = "reject"
		pt.Diags = []DiagExpect{{Code: "receiver-return-values-invalid-signature", Severity: sevErr, Mode: "none"}}
	case "P14a", "P14b":
		var ps []string
		for _, pr := range m.Params {
			ps = append(ps, pr.GoName+" "+pr.Type.GoExpr(c.Pkg, func(string) string { return "x" }))
		}
		if id == "P14a" {
			pt.Rule = "last result is string"
			m.RawSig = "(" + strings.Join(ps, ", ") + ") (int, string)"
			m.RawBody = "\treturn 0, \"\""
		} else {
			pt.Rule = "last result is a struct that does not embed error"
			p.Structs = append(p.Structs, synth.Struct{Name: "NotAnError", Pkg: c.Pkg, Fields: []synth.Field{{GoName: "Msg", Type: synth.Prim("string"), JSONName: "msg"}}})
			m.RawSig = "(" + strings.Join(ps, ", ") + ") (int, NotAnError)"
			m.RawBody = "\treturn 0, NotAnError{}"
		}
		pt.Expect = "reject"
		pt.Diags = []DiagExpect{{Code: "receiver-return-value-is-not-an-error", Severity: sevErr, Mode: "none"}}
	case "P15":
		pt.Rule, pt.Expect = "verb HEAD/OPTIONS/TRACE/CONNECT", "reject"
		m.Verb = []string{"HEAD", "OPTIONS", "TRACE", "CONNECT"}[r.Intn(4)]
		pt.Diags = []DiagExpect{{Code: "unsupported-feature", Severity: sevErr, Anchor: key + "/ann/Method/value", Mode: "exact"}}
	case "P16":
		pt.Rule, pt.Expect = "verb FETCH / get", "reject"
		m.Verb = []string{"FETCH", "get", "Post"}[r.Intn(3)]
		pt.Diags = []DiagExpect{{Code: "annotation-value-invalid", Severity: sevErr, Anchor: key + "/ann/Method/value", Mode: "exact"}}
	case "P17":
		pt.Rule, pt.Expect, pt.Listed = "unknown annotation @Foo(x)", "reject", false
		m.ExtraAnn = append(m.ExtraAnn, "// @Foo(x)")
		pt.Diags = []DiagExpect{{Code: "annotation-unknown", Severity: sevErr, Anchor: key + "/extra/0/line", Mode: "line"}}
	case "P18":
		pt.Rule, pt.Expect, pt.Listed = "@Response(abc)", "reject", false
		m.ExtraAnn = append(m.ExtraAnn, "// @Response(abc)")
		pt.Diags = []DiagExpect{{Code: "annotation-value-invalid", Severity: sevErr, Anchor: key + "/extra/0/line", Sub: "abc", Mode: "exact"}}
	case "P20":
		pt.Rule, pt.Expect, pt.Listed = "controller without @Tag", "accept", false
		c.NoTag = true
		pt.Diags = []DiagExpect{{Code: "controller-missing-tag", Severity: sevWarn, Anchor: "ctl/" + c.Name + "/comment", Mode: "none"}}
	case "P21":
		pt.Rule, pt.Expect, pt.Listed = "two methods with overlapping same-verb routes", "accept", false
		twin := m
		twin.Name = "TargetTwin"
		twin.Params = append([]synth.Param(nil), m.Params...)
		c.Methods = append(c.Methods, twin)
		pt.Diags = []DiagExpect{{Code: "route-conflict", Severity: sevWarn, Anchor: key + "/ann/Route/value", Mode: "exact"}}
	case "PC1":
		pt.Rule, pt.Expect = "positive control: context parameter without annotation + pointer parameters", "accept"
		m.Params = append(m.Params, synth.Param{GoName: "ctx", In: "ctx", Type: synth.T{K: "ctx"}})
		i := paramIdx(&m, "q")
		m.Params[i].Type = synth.Ptr(m.Params[i].Type)
	case "PC2":
		pt.Rule, pt.Expect = "positive control: @Path(p,{name:\"alias\"}) with {alias} in the template", "accept"
		i := paramIdx(&m, pathName)
		m.Params[i].Wire = "pidAlias"
		m.Route = strings.Replace(m.Route, "{"+pathName+"}", "{pidAlias}", 1)
	case "PC3":
		pt.Rule, pt.Expect = "positive control: query slice + enum/alias parameters", "accept"
		i := paramIdx(&m, "q")
		m.Params[i].Type = synth.Slice(synth.Prim("int"))
		p.Enums = append(p.Enums, synth.Enum{Name: "TargetEnum", Pkg: c.Pkg, Base: "string", Values: []synth.EnumConst{{Name: "TargetEnumA", Lit: `"a"`, Text: "a"}, {Name: "TargetEnumB", Lit: `"b"`, Text: "b"}}})
		m.Params = append(m.Params, synth.Param{GoName: "en", Type: synth.Named(c.Pkg, "TargetEnum"), In: "query"})
	case "PC4":
		pt.Rule, pt.Expect = "positive control: custom error type embedding error", "accept"
		if p.Struct(c.Pkg, "TargetErr") == nil {
			p.Structs = append(p.Structs, synth.Struct{Name: "TargetErr", Pkg: c.Pkg, IsError: true, Fields: []synth.Field{{GoName: "Why", Type: synth.Prim("string"), JSONName: "why"}}})
		}
		m.ErrType = "TargetErr"
		m.ErrPtr = r.Intn(2) == 0
	case "PK1":
		// the user's own <module>/pkg/context.Context is not Go's context.Context: it needs an annotation like any other parameter
		pt.Rule, pt.Expect = "an unreferenced parameter whose type is the user's own pkg/context.Context (a plain struct)", "reject"
		if p.Pkg("hctx") == nil {
			p.Pkgs = append(p.Pkgs, synth.Pkg{Key: "hctx", Dir: "pkg/context", Name: "context"})
		}
		if p.Struct("hctx", "Context") == nil {
			p.Structs = append([]synth.Struct{{Name: "Context", Pkg: "hctx", Fields: []synth.Field{{GoName: "Tenant", Type: synth.Prim("string"), JSONName: "tenant"}}}}, p.Structs...)
		}
		// one file cannot import both packages named context
		for ci := range p.Controllers {
			for mi := range p.Controllers[ci].Methods {
				var kept []synth.Param
				for _, pr := range p.Controllers[ci].Methods[mi].Params {
					if pr.In != "ctx" {
						kept = append(kept, pr)
					}
				}
				p.Controllers[ci].Methods[mi].Params = kept
			}
		}
		m.Params = append(m.Params, synth.Param{GoName: "scope", Type: synth.Named("hctx", "Context"), In: "query"})
		m.DropAnn = append(m.DropAnn, "Query:scope")
	default:
		pt.Applied = false
	}
	// place the target among the other methods (any position, any file of the controller)
	m.File = r.Intn(len(c.Files))
	at := r.Intn(len(c.Methods) + 1)
	c.Methods = append(c.Methods[:at], append([]synth.Method{m}, c.Methods[at:]...)...)
	return pt
}
