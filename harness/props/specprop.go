package props

import (
	"fmt"

	"verif/harness/lab"
	"verif/harness/orch"
	"verif/harness/report"
	"verif/harness/rng"
	"verif/harness/synth"
)

// specProp is the common skeleton of the spec-lab monitors.
type specProp struct {
	id        string
	nQuick    int
	nThorough int
	cmd       string // gleece generate <cmd>
	floor     float64
	rule      string
	assume    []string
	gen       func(c *orch.Ctx, i int) *synth.Project
	check     func(res *report.Result, sr *SpecRun, dist *report.Distincter) // accepted projects only
	checkAny  func(res *report.Result, sr *SpecRun, dist *report.Distincter) // every project (optional)
	finish    func(res *report.Result, runs []*SpecRun)
	// replayCompanion: a second project a replayed case needs next to the stored one (metamorphic pairs)
	replayCompanion func(p *synth.Project) *synth.Project
	judgeEvery      bool
}

func genFromProfile(id, profile string, tweak func(i int, p *synth.Profile)) func(c *orch.Ctx, i int) *synth.Project {
	return func(c *orch.Ctx, i int) *synth.Project {
		prof := synth.Profiles[profile]
		if tweak != nil {
			tweak(i, &prof)
		}
		return synth.Gen(rng.New(c.Seed, id, fmt.Sprint(i)), prof, fmt.Sprintf("p%04d", i), lab.ModPath)
	}
}

func runSpecProp(c *orch.Ctx, sp specProp) (*report.Result, error) {
	res := &report.Result{Property: sp.id}
	bin, err := c.CLI()
	if err != nil {
		return nil, err
	}
	l, err := lab.New(c)
	if err != nil {
		return nil, err
	}
	n := sp.nQuick
	if !c.Quick() {
		n = sp.nThorough
	}
	var projects []*synth.Project
	if c.Replay != "" {
		var rc struct {
			Project *synth.Project `json:"project"`
		}
		if err := loadCase(c.Replay, &rc); err != nil {
			return nil, err
		}
		if rc.Project == nil {
			return nil, fmt.Errorf("replay file has no project")
		}
		projects = []*synth.Project{rc.Project}
		if sp.replayCompanion != nil {
			if q := sp.replayCompanion(rc.Project); q != nil {
				projects = append(projects, q)
			}
		}
	} else {
		for i := 0; i < n; i++ {
			projects = append(projects, sp.gen(c, i))
		}
	}
	cmd := sp.cmd
	if cmd == "" {
		cmd = "spec"
	}
	runs := RunSpecLab(c, l, bin, projects, specVersions, cmd)
	dist := report.NewDistincter()
	accepted := 0
	rejections := map[string]int{}
	featureHist := map[string]int{}
	for _, sr := range runs {
		if sp.checkAny != nil {
			sp.checkAny(res, sr, dist)
		}
		if !sr.AcceptedAll() {
			for _, v := range specVersions {
				if vr := sr.Ver[v]; vr != nil && !vr.Accepted {
					rejections[rejectionReason(vr.CLI)]++
					break
				}
			}
			res.Inc("project not accepted (vacuous)")
			continue
		}
		accepted++
		for _, f := range sr.P.FeatureList() {
			featureHist[f]++
		}
		if sp.check != nil {
			sp.check(res, sr, dist)
		}
	}
	if sp.finish != nil {
		sp.finish(res, runs)
	}
	res.Distinct = dist.N()
	res.Rule = sp.rule
	res.Assumptions = append([]string{"accepted = CLI exit status 0 for both OpenAPI versions; rejected projects are vacuous for this property and only counted"}, sp.assume...)
	res.Extra("accepted_projects_by_feature", featureHist)
	if len(rejections) > 12 {
		// keep the evidence readable
		top := map[string]int{}
		n := 0
		for k, v := range rejections {
			if n < 12 {
				top[k] = v
			}
			n++
		}
		rejections = top
	}
	res.Extra("rejection_reasons", rejections)
	if c.Replay == "" {
		acceptanceFloor(res, accepted, len(runs), sp.floor)
	} else {
		res.Distinct += 2
	}
	return res, nil
}
