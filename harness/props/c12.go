package props

import (
	"bytes"
	"encoding/json"
	"fmt"
	"net/url"
	"reflect"
	"sort"
	"strings"

	"verif/harness/lab"
	"verif/harness/orch"
	"verif/harness/report"
	"verif/harness/rng"
	"verif/harness/synth"
)

type c12Req struct {
	br     BuiltRequest
	rr     routeRef
	class  string // what kind of request (for distinct/where)
	behave string
	policy string
}

// c12Mutations derives hostile variants of a valid request. There is no reference answer for them:
// only disagreement between engines is judged.
func c12Mutations(br BuiltRequest, m *synth.Method) []struct {
	name string
	req  Request
} {
	var out []struct {
		name string
		req  Request
	}
	clone := func() Request {
		r := br.Req
		r.Headers = map[string]string{}
		for k, v := range br.Req.Headers {
			r.Headers[k] = v
		}
		return r
	}
	add := func(name string, r Request) {
		out = append(out, struct {
			name string
			req  Request
		}{name, r})
	}
	path, rawq, hasQ := strings.Cut(br.Req.Target, "?")
	if hasQ {
		parts := strings.Split(rawq, "&")
		k, _, _ := strings.Cut(parts[0], "=")
		r := clone()
		r.Target = path + "?" + rawq + "&" + parts[0]
		add("query-key-repeated-same-value", r)
		r = clone()
		r.Target = path + "?" + k + "=&" + strings.Join(parts[1:], "&")
		add("query-value-empty", r)
		r = clone()
		r.Target = path + "?" + rawq + "&unrelated=1"
		add("query-unknown-key", r)
	}
	for _, pr := range m.Params {
		if pr.In == "header" {
			if _, ok := br.Req.Headers[pr.WireName()]; ok {
				r := clone()
				r.Headers[pr.WireName()] = ""
				add("header-value-empty", r)
				break
			}
		}
	}
	if br.Req.Body != nil && br.Req.CType == "application/json" {
		r := clone()
		r.CType = "text/plain"
		add("json-body-as-text-plain", r)
		r = clone()
		r.CType = ""
		add("json-body-without-content-type", r)
		r = clone()
		r.CType = "application/json; charset=utf-8"
		add("json-body-with-charset", r)
		for name, body := range map[string]string{"body-empty": "", "body-null": "null", "body-array": "[]", "body-scalar": "7", "body-trailing-garbage": *br.Req.Body + " x", "body-newline-only": "\n", "body-blanks-only": "  \t ", "body-padded": " \n" + *br.Req.Body + "\n "} {
			r = clone()
			b := body
			r.Body = &b
			add(name, r)
		}
		r = clone()
		r.Body = nil
		add("body-absent", r)
		// two validated fields violated at once (the refusal must name the same things on every engine)
		var obj map[string]any
		if json.Unmarshal([]byte(*br.Req.Body), &obj) == nil && obj["vmin"] != nil && obj["vsmall"] != nil {
			obj["vmin"], obj["vsmall"] = "a", 999
			if b, err := json.Marshal(obj); err == nil {
				r = clone()
				bs := string(b)
				r.Body = &bs
				add("body-two-fields-invalid", r)
			}
		}
	}
	if br.Req.Body != nil && br.Req.CType == "application/x-www-form-urlencoded" {
		r := clone()
		e := ""
		r.Body = &e
		add("form-empty", r)
		r = clone()
		r.CType = "application/json"
		add("form-sent-as-json-type", r)
		if vals, err := url.ParseQuery(*br.Req.Body); err == nil {
			keys := make([]string, 0, len(vals))
			for k := range vals {
				keys = append(keys, k)
			}
			sort.Strings(keys)
			if len(keys) > 0 {
				b := *br.Req.Body + "&" + keys[0] + "=" + url.QueryEscape(vals.Get(keys[0]))
				r = clone()
				r.Body = &b
				add("form-key-repeated", r)
			}
		}
	}
	return out
}

func strictJSONEqual(a, b string) (equal bool, bothJSON bool) {
	dec := func(s string) (any, bool) {
		d := json.NewDecoder(bytes.NewReader([]byte(s)))
		d.UseNumber()
		var v any
		if err := d.Decode(&v); err != nil {
			return nil, false
		}
		if d.More() {
			return nil, false
		}
		return v, true
	}
	va, oka := dec(a)
	vb, okb := dec(b)
	if oka && okb {
		return reflect.DeepEqual(va, vb), true
	}
	return strings.TrimSpace(a) == strings.TrimSpace(b), false
}

func argsText(e Event) string {
	var sb strings.Builder
	for _, a := range e.Args {
		var v any
		d := json.NewDecoder(bytes.NewReader(a.V))
		d.UseNumber()
		_ = d.Decode(&v)
		b, _ := json.Marshal(v)
		sb.WriteString(a.T + "=" + string(b) + ";")
	}
	return sb.String()
}

func c12(c *orch.Ctx) (*report.Result, error) {
	res := &report.Result{Property: "C12"}
	bin, err := c.CLI()
	if err != nil {
		return nil, err
	}
	l, err := lab.New(c)
	if err != nil {
		return nil, err
	}
	n := 8
	if !c.Quick() {
		n = 80
	}
	var projects []*synth.Project
	replayOpts := RouterOpts{}
	if c.Replay != "" {
		var rc struct {
			Project *synth.Project `json:"project"`
			Opts    RouterOpts     `json:"opts"`
		}
		if err := loadCase(c.Replay, &rc); err != nil {
			return nil, err
		}
		projects = []*synth.Project{rc.Project}
		replayOpts = rc.Opts
	} else {
		projects = genRouterProjects(c, "C12", n, func(i int, pr *synth.Profile) {
			pr.Security, pr.DefaultSecP, pr.EnforceP = true, 0.3, 0
		})
	}
	dist := report.NewDistincter()
	counts := map[string]int{}
	enginesSeen := map[string]int{}
	running := 0
	rps := make([]*RouterProject, len(projects))
	optsOf := func(i int) RouterOpts {
		if c.Replay != "" {
			return replayOpts
		}
		return RouterOpts{ValidateResp: i%2 == 1, EnumValid: i%3 == 0}
	}
	orch.ParallelMap(len(projects), 4, func(i int) { rps[i] = BuildRouterProject(c, l, bin, projects[i], optsOf(i)) })
	for pi, rp := range rps {
		p := rp.P
		if len(rp.Engines) < 2 {
			res.Inc("fewer than two generated routers compiled or project rejected")
			continue
		}
		running++
		r := rng.New(c.Seed, "C12-req", p.Name)
		var reqs []c12Req
		k := 0
		add := func(rr routeRef, plan reqPlan, class, behave, policy string) *BuiltRequest {
			k++
			br, ok := buildRequest(r, p, rr.c, rr.m, fmt.Sprintf("%s-r%04d", p.Name, k), plan)
			if !ok {
				return nil
			}
			if behave != "" {
				br.Req.Headers["X-Verif-Behave"] = behave
			}
			if policy != "" {
				br.Req.Headers["X-Verif-Policy"] = policy
			}
			reqs = append(reqs, c12Req{br: br, rr: rr, class: class, behave: behave, policy: policy})
			return &reqs[len(reqs)-1].br
		}
		for _, rr := range endpointsOf(p) {
			for _, class := range []string{"typical", "boundary", "zero"} {
				add(rr, reqPlan{Class: class}, "valid-"+class, "", "")
			}
			add(rr, reqPlan{Class: "typical", OmitOptional: true}, "valid-optionals-omitted", "", "")
			add(rr, reqPlan{Class: "typical", Decoys: true}, "same-named-decoys-elsewhere", "", "")
			for _, b := range []string{"err", "status", "header", "errstatus"} {
				add(rr, reqPlan{Class: "typical"}, "operation-"+b, b, "")
			}
			if len(p.EffectiveSecurity(rr.c, rr.m)) > 0 {
				add(rr, reqPlan{Class: "typical"}, "refused-401", "", "*=401")
				add(rr, reqPlan{Class: "typical"}, "refused-custom", "", "*=custom403")
				add(rr, reqPlan{Class: "typical"}, "refused-418", "", "*=418")
				// every alternative refused, each with its own status / payload
				eff := p.EffectiveSecurity(rr.c, rr.m)
				keys := map[string]bool{}
				pol := "*=403"
				for i, a := range eff {
					if !keys[secKey(a)] {
						keys[secKey(a)] = true
						v := fmt.Sprintf("%d", 401+5*i)
						if i%2 == 1 {
							v = "custom" + fmt.Sprint(409+i)
						}
						pol += "," + secKey(a) + "=" + v
					}
				}
				if len(keys) >= 2 {
					add(rr, reqPlan{Class: "typical"}, "refused-differently-per-alternative", "", pol)
					add(rr, reqPlan{Class: "typical"}, "only-last-alternative-approves", "", "*=401,"+secKey(eff[len(eff)-1])+"=ok")
					add(rr, reqPlan{Class: "typical"}, "only-first-alternative-approves", "", "*=401,"+secKey(eff[0])+"=ok")
				}
			}
			for _, pr := range rr.m.Params {
				if pr.In == "ctx" {
					continue
				}
				add(rr, reqPlan{Class: "typical", Omit: pr.GoName}, "omitted-"+pr.In, "", "")
				add(rr, reqPlan{Class: "typical", Omit: pr.GoName, Decoys: true}, "omitted-"+pr.In+"-with-decoys", "", "")
				add(rr, reqPlan{Class: "typical", IllTyped: pr.GoName}, "unconvertible-"+pr.In, "", "")
				if pr.Validate != "" {
					add(rr, reqPlan{Class: "typical", Violate: pr.GoName}, "validator-violated-"+pr.In, "", "")
				}
				if pr.In == "body" {
					add(rr, reqPlan{Class: "typical", BadBody: true}, "malformed-body", "", "")
				}
			}
			// hostile variants of one valid request
			k++
			if br, ok := buildRequest(r, p, rr.c, rr.m, fmt.Sprintf("%s-r%04d", p.Name, k), reqPlan{Class: "typical"}); ok {
				for mi, mu := range c12Mutations(br, rr.m) {
					b2 := br
					b2.Req = mu.req
					b2.Req.Rid = fmt.Sprintf("%s-m%02d", br.Req.Rid, mi)
					b2.Why = "hostile: " + mu.name
					b2.Args = nil
					reqs = append(reqs, c12Req{br: b2, rr: rr, class: "hostile-" + mu.name})
				}
			}
		}
		gor := 0
		if !c.Quick() {
			gor = 4
		}
		wl := Workload{Goroutines: gor}
		for _, q := range reqs {
			wl.Requests = append(wl.Requests, q.br.Req)
		}
		run, err := rp.Run(wl, gor > 0)
		if err != nil {
			res.Inc("probe did not run: " + firstLine(err.Error()))
			continue
		}
		for _, eng := range rp.Engines {
			enginesSeen[eng]++
		}
		type obs struct {
			calls  int
			target string
			args   string
			status int
			body   string
			xout   string
			ok     bool
		}
		for _, q := range reqs {
			suffixes := []string{""}
			for g := 0; g < gor; g++ {
				suffixes = append(suffixes, fmt.Sprintf("#g%d", g))
			}
			for _, sfx := range suffixes {
				all := map[string]obs{}
				for _, eng := range rp.Engines {
					rid := q.br.Req.Rid + "@" + eng + sfx
					resp := run.resp(rid)
					if resp == nil {
						continue
					}
					o := obs{status: resp.Status, body: resp.Body, ok: true, xout: resp.Hdr["X-Out"]}
					calls := run.calls(rid)
					o.calls = len(calls)
					if len(calls) > 0 {
						o.target = calls[0].Ctl + "." + calls[0].Method
						o.args = argsText(calls[0])
					}
					all[eng] = o
				}
				if len(all) < 2 {
					if sfx == "" {
						res.Inc("fewer than two engines answered")
					}
					continue
				}
				res.Evaluations++
				counts["requests-compared"]++
				ref := rp.Engines[0]
				for _, e := range rp.Engines {
					if all[e].ok {
						ref = e
						break
					}
				}
				shape := ""
				for _, pr := range q.rr.m.Params {
					shape += pr.In[:1]
				}
				dist.Add(q.class, shape, all[ref].status, optsOf(pi).ValidateResp, q.rr.m.Ret != nil, q.rr.m.ErrType != "")
				// majority partition for the message
				describe := func(f func(o obs) string) (string, bool) {
					groups := map[string][]string{}
					for _, e := range rp.Engines {
						if o, ok := all[e]; ok {
							groups[f(o)] = append(groups[f(o)], e)
						}
					}
					if len(groups) < 2 {
						return "", false
					}
					var parts []string
					for v, es := range groups {
						parts = append(parts, strings.Join(es, ",")+" -> "+v)
					}
					sort.Strings(parts)
					return strings.Join(parts, "  |  "), true
				}
				minority := func(f func(o obs) string) string {
					groups := map[string][]string{}
					for _, e := range rp.Engines {
						if o, ok := all[e]; ok {
							groups[f(o)] = append(groups[f(o)], e)
						}
					}
					best := ""
					for v, es := range groups {
						if best == "" || len(es) < len(groups[best]) || (len(es) == len(groups[best]) && v < best) {
							best = v
						}
					}
					return strings.Join(groups[best], "+")
				}
				label := fmt.Sprintf("[%s %s %s (%s) validateResponsePayload=%v]", p.Name, q.br.Req.Verb, q.br.Req.Target, q.br.Why, optsOf(pi).ValidateResp)
				cs := map[string]any{"project": p, "opts": optsOf(pi), "request": q.br}
				if d, bad := describe(func(o obs) string { return fmt.Sprintf("%d call(s) %s", o.calls, o.target) }); bad {
					res.AddViolation("engines-disagree-on-invocation", map[string]string{"class": q.class, "odd": minority(func(o obs) string { return fmt.Sprintf("%d %s", o.calls, o.target) })}, label+" "+d, cs)
					continue
				}
				if d, bad := describe(func(o obs) string { return o.args }); bad {
					res.AddViolation("engines-disagree-on-arguments", map[string]string{"class": q.class, "odd": minority(func(o obs) string { return o.args })}, label+" "+d, cs)
					continue
				}
				if d, bad := describe(func(o obs) string { return fmt.Sprint(o.status) }); bad {
					res.AddViolation("engines-disagree-on-status", map[string]string{"class": q.class, "odd": minority(func(o obs) string { return fmt.Sprint(o.status) })}, label+" "+d, cs)
					continue
				}
				// bodies: JSON-equivalence against the reference engine
				bodyBad := false
				for _, e := range rp.Engines {
					o, ok := all[e]
					if !ok || e == ref {
						continue
					}
					if eq, _ := strictJSONEqual(all[ref].body, o.body); !eq {
						bodyBad = true
					}
				}
				if bodyBad {
					d, _ := describe(func(o obs) string { return fmt.Sprintf("%.160q", o.body) })
					res.AddViolation("engines-disagree-on-body", map[string]string{"class": q.class, "status": fmt.Sprint(all[ref].status), "odd": minority(func(o obs) string {
						var v any
						if json.Unmarshal([]byte(o.body), &v) == nil {
							b, _ := json.Marshal(v)
							return string(b)
						}
						return strings.TrimSpace(o.body)
					})}, label+" "+d, cs)
					continue
				}
				if _, bad := describe(func(o obs) string { return o.xout }); bad {
					counts["response-header-differs (not judged)"]++
				}
			}
		}
		if gor > 0 {
			for _, blk := range run.raceInGenerated(p.ModPath) {
				res.AddViolation("data-race-in-generated-router", nil, fmt.Sprintf("[%s] %s", p.Name, blk), map[string]any{"project": p})
			}
		}
		if len(res.Samples) < 3 && len(reqs) > 6 {
			q := reqs[5]
			sm := map[string]any{"project": p.Name, "class": q.class, "request": q.br.Req}
			for _, e := range rp.Engines {
				if rs := run.resp(q.br.Req.Rid + "@" + e); rs != nil {
					sm[e] = fmt.Sprintf("%d %.120s calls=%d", rs.Status, rs.Body, len(run.calls(q.br.Req.Rid+"@"+e)))
				}
			}
			res.Samples = append(res.Samples, sm)
		}
	}
	res.Distinct = dist.N()
	res.Rule = "pure differential over the traces of the router lab: per project the five generated routers receive the same requests (C05's valid / boundary / zero / omitted / unconvertible / validator-violating / malformed-body requests, the four operation behaviours err | status | header | errstatus with plain and custom error types, authorization refusals with 401 / 418 / custom payload, and hostile variants: repeated / empty / unknown query keys, empty header values, wrong / missing / parameterised content types, empty / null / array / scalar / trailing-garbage bodies, repeated form keys), half of the projects with validateResponsePayload on. Per request the tuple (number of calls, controller.method, recorded arguments, status, body parsed as JSON) must be equal on all engines. distinct = distinct (request class, parameter-list shape, status, validateResponsePayload, has result, custom error)"
	res.Extra("observations", counts)
	res.Extra("projects_with_running_routers", running)
	res.Extra("engines_exercised", enginesSeen)
	res.Assumptions = []string{"all five engines are driven in-process with the same *http.Request (ServeHTTP / app.Test)", "response headers other than the status are observed, not judged (the statement names status and body)"}
	if running == 0 && c.Replay == "" {
		res.Fatal = "no project produced two running routers"
	}
	return res, nil
}

func init() { Registry["C12"] = c12 }
