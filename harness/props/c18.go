package props

import (
	"fmt"
	"path/filepath"
	"regexp"
	"strings"
	"unicode/utf8"

	"verif/harness/monitors/pipe"
	"verif/harness/orch"
	"verif/harness/report"
	"verif/harness/synth"
)

var errLineRe = regexp.MustCompile(`^\s*([a-z][a-z0-9-]+) at (.+):(\d+):(\d+) - (.*)$`)

type posRange struct{ sl, sc, el, ec int }

func (r posRange) String() string { return fmt.Sprintf("%d:%d-%d:%d", r.sl, r.sc, r.el, r.ec) }

func within(inner, outer posRange) bool {
	startOK := inner.sl > outer.sl || (inner.sl == outer.sl && inner.sc >= outer.sc)
	endOK := inner.el < outer.el || (inner.el == outer.el && inner.ec <= outer.ec)
	return startOK && endOK
}

// codes that speak about a method's result list / a parameter / the controller comment: their
// range must lie in that construct (the "code documented for the violated rule" clause).
var codeConstruct = map[string]string{
	"receiver-return-values-invalid-signature": "results",
	"receiver-return-value-is-not-an-error":    "results",
	"receiver-missing-security":                "results",
	"linker-unreferenced-parameter":            "param",
	"receiver-parameter-not-primitive":         "param",
	"receiver-invalid-body":                    "param",
}

func checkDiagnostics(res *report.Result, pc *PertCase) {
	p, pt, v := pc.P, pc.Pt, pc.Val
	pos := pc.Rendered.Positions
	where := map[string]string{"perturbation": pt.ID}
	fail := func(kind string, extra map[string]string, format string, args ...any) {
		w := map[string]string{"perturbation": pt.ID}
		for k, x := range extra {
			w[k] = x
		}
		if kind == "error-text-repeats-diagnostic" {
			delete(w, "perturbation")
		}
		res.AddViolation(kind, w, fmt.Sprintf("[%s %s: %s] ", p.Name, pt.ID, pt.Rule)+fmt.Sprintf(format, args...), pc.caseJSON())
	}
	_ = where
	fileLines := map[string][]string{}
	linesOf := func(rel string) []string {
		if l, ok := fileLines[rel]; ok {
			return l
		}
		l := strings.Split(pc.Rendered.Files[rel], "\n")
		fileLines[rel] = l
		return l
	}
	seen := map[string]bool{}
	for _, d := range v.Diags {
		res.Evaluations++
		// entity
		var ctlName, recvName string
		for _, e := range d.Entity {
			if strings.HasPrefix(e, "Controller ") {
				ctlName = strings.TrimPrefix(e, "Controller ")
			}
			if strings.HasPrefix(e, "Receiver ") {
				recvName = strings.TrimPrefix(e, "Receiver ")
			}
		}
		entKey := "ctl/" + ctlName
		if recvName != "" {
			entKey = "m/" + ctlName + "." + recvName
		}
		decl, okDecl := pos[entKey+"/decl"]
		if !okDecl {
			res.Inc("diagnostic for an entity the renderer did not place: " + entKey)
			continue
		}
		rel := decl.File
		abs := filepath.Join(pc.Dir, rel)
		r := posRange{d.Range[0], d.Range[1], d.Range[2], d.Range[3]}
		id := fmt.Sprintf("%s|%s|%s|%v", d.Code, d.Message, d.File, d.Range)
		if seen[id] {
			fail("duplicate-diagnostic", nil, "diagnostic reported twice: %s %q at %s", d.Code, d.Message, r)
		}
		seen[id] = true
		if d.File != abs {
			fail("wrong-file", nil, "%s names file %s, the offending %s lives in %s", d.Code, d.File, entKey, abs)
			continue
		}
		lines := linesOf(rel)
		if r.sl < 0 || r.sc < 0 || r.el >= len(lines) || r.sl > r.el || (r.sl == r.el && r.sc > r.ec) {
			fail("range-malformed", map[string]string{"code": d.Code}, "%s has range %s in a file of %d lines", d.Code, r, len(lines))
			continue
		}
		if r.sc > utf8.RuneCountInString(lines[r.sl]) || r.ec > utf8.RuneCountInString(lines[r.el])+1 {
			fail("range-beyond-line", map[string]string{"code": d.Code}, "%s has range %s but line %d has %d runes / line %d has %d runes", d.Code, r, r.sl, utf8.RuneCountInString(lines[r.sl]), r.el, utf8.RuneCountInString(lines[r.el]))
			continue
		}
		// inside the entity's comment block or declaration
		inside := false
		for _, k := range []string{"/comment", "/decl"} {
			if e, ok := pos[entKey+k]; ok {
				if within(r, posRange{e.Line, 0, e.EndLine, 1 << 30}) {
					inside = true
				}
			}
		}
		if !inside {
			hasResults := "true"
			if recvName != "" {
				if _, ok := pos[entKey+"/results"]; !ok {
					hasResults = "false"
				}
			}
			fail("range-outside-entity", map[string]string{"code": d.Code, "method_has_results": hasResults}, "%s (%q) has range %s which is neither inside the comment block nor inside the declaration of %s", d.Code, d.Message, r, entKey)
			continue
		}
		if construct, ok := codeConstruct[d.Code]; ok && recvName != "" {
			okC := false
			switch construct {
			case "results":
				if e, ok := pos[entKey+"/results"]; ok {
					okC = within(r, posRange{e.Line, e.Col, e.EndLine, e.EndCol})
				} else {
					okC = true // no result list to point at: any place inside the declaration will do
				}
			case "param":
				for k, e := range pos {
					if strings.HasPrefix(k, entKey+"/param/") && within(r, posRange{e.Line, e.Col, e.EndLine, e.EndCol}) {
						okC = true
					}
				}
				if pt.ID == "P13a" || pt.ID == "P13b" || pt.ID == "P14a" || pt.ID == "P14b" || pt.ID == "PX5" {
					okC = true // raw / multi-line signatures: parameter positions are not recorded
				}
			}
			if !okC {
				fail("code-does-not-match-construct", map[string]string{"code": d.Code}, "%s (%q) is a code about the method's %s but its range %s lies elsewhere", d.Code, d.Message, construct, r)
			}
		}
	}
	// expected diagnostics of the perturbation
	for _, e := range pt.Diags {
		res.Evaluations++
		var want *posRange
		if e.Anchor != "" && e.Mode != "none" {
			a, ok := pos[e.Anchor]
			if !ok {
				res.Inc("anchor not rendered: " + e.Anchor)
				continue
			}
			w := posRange{a.Line, a.Col, a.EndLine, a.EndCol}
			if e.Sub != "" {
				line := linesOf(a.File)[a.Line]
				runes := []rune(line)
				from := a.Col
				if e.Mode == "exact" && strings.HasSuffix(e.Anchor, "/line") {
					from = 0
				}
				idx := strings.Index(string(runes[from:]), e.Sub)
				if idx < 0 {
					res.Inc("anchor substring not found")
					continue
				}
				start := from + utf8.RuneCountInString(string(runes[from:])[:idx])
				w = posRange{a.Line, start, a.Line, start + utf8.RuneCountInString(e.Sub)}
			}
			want = &w
		}
		found, foundCode := false, false
		var gotRanges []string
		for _, d := range v.Diags {
			if d.Code != e.Code {
				continue
			}
			foundCode = true
			if d.Severity != e.Severity {
				continue
			}
			r := posRange{d.Range[0], d.Range[1], d.Range[2], d.Range[3]}
			gotRanges = append(gotRanges, r.String())
			if want == nil || r == *want {
				found = true
			}
		}
		switch {
		case !foundCode:
			fail("expected-code-missing", map[string]string{"code": e.Code}, "no diagnostic with the documented code %s (got: %s)", e.Code, diagSummary(v))
		case !found && want != nil:
			fail("wrong-range", map[string]string{"code": e.Code}, "%s should cover %s (%s) but covers %v", e.Code, want, e.Anchor, gotRanges)
		case !found:
			fail("wrong-severity", map[string]string{"code": e.Code}, "%s has a severity other than %d", e.Code, e.Severity)
		}
	}
	// the command's error text
	if v.RunErr != "" {
		seenLine := map[string]int{}
		for _, ln := range strings.Split(v.RunErr, "\n") {
			if m := errLineRe.FindStringSubmatch(ln); m != nil {
				seenLine[strings.TrimSpace(ln)]++
			}
		}
		for ln, n := range seenLine {
			if n > 1 {
				errDiags := 0
				for _, d := range v.Diags {
					if d.Severity == 1 {
						errDiags++
					}
				}
				// attest the cause: the entity block is printed once per error diagnostic of that entity
				cause := "other"
				for _, d := range v.Diags {
					// (the repeated block also carries the entity's warnings, so the repeated line may be of any severity)
					// matched by code and position: the "Did you mean ...?" suffix of a message is not stable between
					// two validations of one project
					if strings.Contains(ln, d.Code+" at ") && strings.Contains(ln, fmt.Sprintf(":%d:%d - ", d.Range[0]+1, d.Range[1]+1)) {
						same := 0
						for _, o := range v.Diags {
							if o.Severity == 1 && fmt.Sprint(o.Entity) == fmt.Sprint(d.Entity) {
								same++
							}
						}
						if same >= 2 && n == same {
							cause = "entity-block-printed-once-per-error-diagnostic"
						}
						break
					}
				}
				_ = errDiags
				fail("error-text-repeats-diagnostic", map[string]string{"cause": cause}, "the error text prints %d times: %s", n, ln)
				break
			}
		}
	}
}

func c18(c *orch.Ctx) (*report.Result, error) {
	res := &report.Result{Property: "C18"}
	ids := []string{"P1", "P4", "P5", "P6", "P7", "P8q", "P8h", "P8b", "P8f", "P9", "P10", "P11s", "P11m", "P11t", "P12", "P13a", "P13b", "P14a", "P14b", "P15", "P16", "P17", "P18", "P20", "P21", "P2", "P3b", "P3c", "P22", "P22d", "P15d", "P16d", "P18d", "P6d", "PX1", "PX2", "PX3", "PX4", "PX5", "PM1", "PS1", "PS2", "PS3", "PE1"}
	n := 4 * len(ids)
	if !c.Quick() {
		n = 40 * len(ids)
	}
	cases, err := RunPertLab(c, "C18", n, ids, false)
	if err != nil {
		return nil, err
	}
	dist := report.NewDistincter()
	codes := map[string]int{}
	diagsSeen := 0
	for _, pc := range cases {
		if pc.Val == nil {
			res.Inc("in-process validation did not complete: " + firstLine(pc.ValErr))
			continue
		}
		if pc.Val.ConfigErr != "" || pc.Val.PipelineErr != "" || pc.Val.GraphErr != "" {
			res.Inc("project did not reach validation: " + firstLine(pc.Val.ConfigErr+pc.Val.PipelineErr+pc.Val.GraphErr))
			continue
		}
		if pc.Val.Panic != "" {
			res.AddViolation("panic-in-validation", map[string]string{"perturbation": pc.Pt.ID}, pc.Val.Panic, pc.caseJSON())
			continue
		}
		checkDiagnostics(res, pc)
		for _, d := range pc.Val.Diags {
			codes[d.Code]++
			diagsSeen++
			dist.Add(pc.Pt.ID, d.Code, pc.Noise > 0, d.Range[1] > 30)
		}
		if len(res.Samples) < 3 && len(pc.Val.Diags) > 1 && pc.Noise > 0 {
			var ds []string
			for _, d := range pc.Val.Diags {
				ds = append(ds, fmt.Sprintf("%s sev%d %v %q", d.Code, d.Severity, d.Range, d.Message))
			}
			res.Samples = append(res.Samples, map[string]any{"perturbation": pc.Pt.ID, "rule": pc.Pt.Rule, "leading_noise_lines": pc.Noise, "diagnostics": ds, "expected": pc.Pt.Diags})
		}
	}
	res.Distinct = dist.N()
	res.Rule = fmt.Sprintf("%d perturbed projects (27 operators of Appendix H that yield diagnostics) rendered at random vertical offsets with multibyte noise above and inside the comments, several controllers per file and several files; every diagnostic from the real in-process Validate() is checked for: file = file of the offending entity, well-formed 0-based range inside the file, inside the entity's comment block or declaration, code/construct consistency; every operator's documented code/severity/anchor range (from the renderer's position map) must be present; no duplicate in the list nor in the Run() error text. distinct = distinct (operator, code, noise?, wide-column?)", n)
	res.Extra("diagnostics_checked", diagsSeen)
	res.Extra("diagnostics_by_code", codes)
	res.Assumptions = []string{"positions come from the renderer (0-based line, rune columns); only operators with an unambiguous documented code are judged on code (Appendix H)"}
	return res, nil
}

func init() { Registry["C18"] = c18 }

var _ = pipe.Diag{}
var _ = synth.Pos{}
