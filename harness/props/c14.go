package props

import (
	"bufio"
	"encoding/json"
	"fmt"
	"os"
	"path/filepath"
	"sort"
	"strings"
	"sync"

	"verif/harness/lab"
	"verif/harness/orch"
	"verif/harness/report"
	"verif/harness/rng"
	"verif/harness/synth"
)

var c14BaseProfile = synth.Profile{Name: "c14base", MaxControllers: 1, MaxMethods: 3, MultiPkg: false, MultiFile: false,
	ParamIn: []string{"path", "query", "header", "body"}, ParamTypeLevel: 2, Models: 1, RouteStyle: "clean", Responses: true, CustomErrors: true}

func c14Base(seed int64, i int) *synth.Project {
	p := synth.Gen(rng.New(seed, "C14", "base", fmt.Sprint(i)), c14BaseProfile, fmt.Sprintf("c%04d", i), lab.ModPath)
	return p
}

var c14Commands = [][]string{
	{"generate", "spec-and-routes", "-c", "gleece.config.json", "--no-banner"},
	{"generate", "spec", "-c", "gleece.config.json", "--no-banner"},
	{"generate", "routes", "-c", "gleece.config.json", "--no-banner"},
	{"dump", "graph", "-f", "dot", "-c", "gleece.config.json", "--no-banner"},
	{"dump", "graph", "-f", "plain", "-o", "dist/graph.txt", "-c", "gleece.config.json", "--no-banner"},
}

func promisedFor(argv []string) []string {
	if len(argv) >= 2 && argv[0] == "generate" {
		switch argv[1] {
		case "spec-and-routes":
			return []string{"dist/openapi.json", "dist/routes/gleece.routes.go"}
		case "spec":
			return []string{"dist/openapi.json"}
		case "routes":
			return []string{"dist/routes/gleece.routes.go"}
		}
	}
	for i, a := range argv {
		if a == "-o" && i+1 < len(argv) {
			return []string{argv[i+1]}
		}
	}
	return nil
}

// configLeaves enumerates JSON-pointer-like paths to the leaves of the configuration document.
func configLeaves(v any, path []string, out *[][]string) {
	switch t := v.(type) {
	case map[string]any:
		keys := make([]string, 0, len(t))
		for k := range t {
			keys = append(keys, k)
		}
		sort.Strings(keys)
		for _, k := range keys {
			configLeaves(t[k], append(append([]string{}, path...), k), out)
		}
		*out = append(*out, path) // the container itself is a mutation site too
	case []any:
		for i, e := range t {
			configLeaves(e, append(append([]string{}, path...), fmt.Sprint(i)), out)
		}
		*out = append(*out, path)
	default:
		*out = append(*out, path)
	}
}

func setAt(doc any, path []string, val any, remove bool) {
	if len(path) == 0 {
		return
	}
	cur := doc
	for i, k := range path {
		last := i == len(path)-1
		switch t := cur.(type) {
		case map[string]any:
			if last {
				if remove {
					delete(t, k)
				} else {
					t[k] = val
				}
				return
			}
			cur = t[k]
		case []any:
			var idx int
			fmt.Sscan(k, &idx)
			if idx >= len(t) {
				return
			}
			if last {
				if !remove {
					t[idx] = val
				}
				return
			}
			cur = t[idx]
		default:
			return
		}
	}
}

func deepValue(n int) any {
	var v any = "leaf"
	for i := 0; i < n; i++ {
		if i%2 == 0 {
			v = map[string]any{"k": v}
		} else {
			v = []any{v}
		}
	}
	return v
}

func genC14Cases(c *orch.Ctx) []*c14Case {
	r := rng.New(c.Seed, "C14", "cases")
	scale := 1
	if !c.Quick() {
		scale = 8
	}
	var cases []*c14Case
	n := 0
	base := func() *synth.Project { n++; return c14Base(c.Seed, n) }
	// grammar 1: unsupported constructs
	for round := 0; round < scale; round++ {
		for k := range zoo {
			p := base()
			cmd := c14Commands[0]
			if round > 0 {
				cmd = c14Commands[r.Intn(len(c14Commands))]
			}
			picks := []int{k}
			if round > 0 {
				picks = append(picks, r.Intn(len(zoo)), r.Intn(len(zoo)))
			}
			cases = append(cases, &c14Case{Grammar: "constructs", Label: zoo[k].Name, Project: p, Files: map[string]string{"ctl/zoo_gen.go": renderZoo("ctl", picks)}, Argv: cmd})
		}
		for j := 0; j < 15; j++ {
			p := base()
			picks := []int{r.Intn(len(zoo)), r.Intn(len(zoo)), r.Intn(len(zoo)), r.Intn(len(zoo))}
			cases = append(cases, &c14Case{Grammar: "constructs", Label: "combo", Project: p, Files: map[string]string{"ctl/zoo_gen.go": renderZoo("ctl", picks)}, Argv: c14Commands[1+j%4]})
		}
	}
	// ... and declared types living in packages with awkward import paths (a bare "v", version suffixes, keywords-alikes)
	for k, dir := range []string{"lib/v", "lib/thing/v2", "lib/thing/v0", "lib/v10x", "lib/x/vv", "lib/go", "lib/int"} {
		p := base()
		name := filepath.Base(dir)
		if name == "v2" || name == "v0" {
			name = "thing"
		}
		if name == "go" || name == "int" {
			name = "pkg" + name
		}
		src := "package " + name + "\n\ntype Item struct {\n\tA string `json:\"a\"`\n}\n"
		ctl := "package ctl\n\nimport (\n\t\"github.com/gopher-fleece/runtime\"\n\todd \"" + p.ModPath + "/" + dir + "\"\n)\n\n// @Tag(Odd)\n// @Route(/odd)\ntype OddCtl struct {\n\truntime.GleeceController\n}\n\n// @Method(POST)\n// @Route(/item)\n// @Body(in)\nfunc (c *OddCtl) Put(in odd.Item) (odd.Item, error) {\n\treturn in, nil\n}\n"
		cases = append(cases, &c14Case{Grammar: "constructs", Label: "type-from-package-path-" + dir, Project: p, Files: map[string]string{dir + "/item.go": src, "ctl/zz_odd.go": ctl}, Argv: c14Commands[k%3]})
	}
	// grammar 2: malformed annotations
	for k, ll := range leadLineSets {
		p := base()
		cc := &p.Controllers[0]
		for mi := range cc.Methods {
			cc.Methods[mi].LeadLines = ll
			cc.Methods[mi].Descr = ""
		}
		cases = append(cases, &c14Case{Grammar: "annotations", Label: fmt.Sprintf("lead-lines-%d", k), Project: p, Argv: c14Commands[k%3]})
	}
	// verbs in odd spellings, non-ASCII identifiers next to annotations that match nothing
	for k, verb := range []string{"get", "Get", "pOsT", "options", "HEAD", "Options", " GET", "GET ", "gét"} {
		p := base()
		cc := &p.Controllers[0]
		t := synth.Prim("string")
		cc.Methods = append(cc.Methods, synth.Method{Name: "OddVerb", Verb: verb, Route: "/oddverb", Ret: &t})
		cases = append(cases, &c14Case{Grammar: "annotations", Label: fmt.Sprintf("verb-spelling-%q", verb), Project: p, Argv: c14Commands[k%3]})
	}
	for k, ident := range []string{"имя", "名前", "naïve", "x١", "ǅ", "π"} {
		p := base()
		cc := &p.Controllers[0]
		t := synth.Prim("string")
		m := synth.Method{Name: "Unicode", Verb: "GET", Route: "/unicode", Ret: &t, Params: []synth.Param{{GoName: ident, Type: synth.Prim("string"), In: "query", AnnName: "nomatch"}}}
		if k%2 == 1 {
			m.Params[0].AnnName = "" // well linked: must simply work
		}
		cc.Methods = append(cc.Methods, m)
		cases = append(cases, &c14Case{Grammar: "annotations", Label: "non-ascii-parameter-" + ident, Project: p, Argv: c14Commands[k%3]})
	}
	mAnn, cAnn := annotationMatrix(c.Seed, !c.Quick())
	for round := 0; round < scale; round++ {
		methodAnns := badAnnotations
		ctlAnns := badControllerAnnotations
		if round == 0 {
			methodAnns = append(append([]string{}, badAnnotations...), mAnn...)
			ctlAnns = append(append([]string{}, badControllerAnnotations...), cAnn...)
		}
		for k, ann := range methodAnns {
			p := base()
			cc := &p.Controllers[0]
			m := synth.Method{Name: "AnnTarget", Verb: "GET", Route: "/anntarget", Params: []synth.Param{{GoName: "q", Type: synth.Prim("string"), In: "query"}, {GoName: "a", Type: synth.Prim("int"), In: "query"}}}
			if strings.Contains(cc.Route, "{tenant}") {
				m.Params = append(m.Params, synth.Param{GoName: "tenant", Type: synth.Prim("string"), In: "path"})
			}
			t := synth.Prim("string")
			m.Ret = &t
			m.ExtraAnn = strings.Split(ann, "\n")
			if round > 0 && r.Intn(2) == 0 {
				m.ExtraAnn = append(m.ExtraAnn, strings.Split(badAnnotations[r.Intn(len(badAnnotations))], "\n")...)
			}
			cc.Methods = append(cc.Methods, m)
			cmd := c14Commands[0]
			if k%5 == 4 {
				cmd = c14Commands[1+r.Intn(4)]
			}
			cases = append(cases, &c14Case{Grammar: "annotations", Label: fmt.Sprintf("method-ann-%d", k), Project: p, Argv: cmd})
		}
		for k, ann := range ctlAnns {
			p := base()
			p.Controllers[0].ExtraAnn = strings.Split(ann, "\n")
			cases = append(cases, &c14Case{Grammar: "annotations", Label: fmt.Sprintf("controller-ann-%d", k), Project: p, Argv: c14Commands[(k%2)*3]})
		}
	}
	// grammar 3: validator tags
	nTagCases := 45 * scale
	ri := 0
	for j := 0; j < nTagCases; j++ {
		p := base()
		var fields []string
		for f := 0; f < 8; f++ {
			var tag string
			if j%9 == 8 {
				tag = randomRawTag(r)
			} else {
				// walk the rule x value product systematically, the field type randomly
				rule := ruleNames[ri%len(ruleNames)]
				val := ruleValues[(ri/len(ruleNames))%len(ruleValues)]
				ri++
				tag = rule + val
				if r.Intn(3) == 0 {
					tag = "required," + tag
				}
			}
			ft := tagFieldTypes[r.Intn(len(tagFieldTypes))]
			fields = append(fields, fmt.Sprintf("%s `json:\"f%d\" validate:%q`", ft, f, tag))
		}
		files := map[string]string{
			"ctl/tags_types_gen.go": renderTagTypes("ctl", fields),
			"ctl/tags_ctl_gen.go":   "package ctl\n\nimport (\n\t\"github.com/gopher-fleece/runtime\"\n)\n\n// @Tag(Tags)\n// @Route(/tags)\ntype TagsCtl struct {\n\truntime.GleeceController\n}\n\n// @Method(POST)\n// @Route(/t)\n// @Body(b)\nfunc (c *TagsCtl) PostTags(b TagHost) (TagHost, error) {\n\treturn b, nil\n}\n",
		}
		cases = append(cases, &c14Case{Grammar: "validator-tags", Label: fmt.Sprintf("fields-%d", j), Project: p, Files: files, Argv: c14Commands[j%2]})
	}
	for j := 0; j < 25*scale; j++ {
		p := base()
		cc := &p.Controllers[0]
		rule := ruleNames[(j*7)%len(ruleNames)] + ruleValues[(j*3)%len(ruleValues)]
		if j%6 == 5 {
			rule = randomRawTag(r)
		}
		types := []synth.T{synth.Prim("string"), synth.Prim("int"), synth.Prim("float64"), synth.Prim("bool"), synth.Slice(synth.Prim("string")), synth.Ptr(synth.Prim("int"))}
		m := synth.Method{Name: "TagParam", Verb: "GET", Route: "/tagparam", Params: []synth.Param{{GoName: "q", Type: types[j%len(types)], In: "query", Validate: rule}}}
		if strings.Contains(cc.Route, "{tenant}") {
			m.Params = append(m.Params, synth.Param{GoName: "tenant", Type: synth.Prim("string"), In: "path"})
		}
		cc.Methods = append(cc.Methods, m)
		cases = append(cases, &c14Case{Grammar: "validator-tags", Label: fmt.Sprintf("param-%d", j), Project: p, Argv: c14Commands[j%2]})
	}
	// ... and on parameters of every location whose type is an enum / alias / pointer (a $ref or a wrapped schema
	// at the usage site), under both spec versions
	{
		usageRules := []string{"oneof=a b", "enum=a,b", "required", "min=1", "max=3", "len=2", "email", "gte=0", "oneof=", "pattern=^a+$"}
		k := 0
		for _, in := range []string{"query", "header", "form", "path"} {
			for _, ty := range []string{"enum", "alias", "ptr-enum", "slice-enum"} {
				for _, ver := range []string{"3.0.0", "3.1.0"} {
					rule := usageRules[k%len(usageRules)]
					k++
					if !c.Quick() {
						// thorough: every rule
						rule = ""
					}
					rules := []string{rule}
					if rule == "" {
						rules = usageRules
					}
					for _, rl := range rules {
						p := base()
						p.Config.OpenAPI = ver
						cc := &p.Controllers[0]
						p.Enums = append(p.Enums, synth.Enum{Name: "UsageEnum", Pkg: cc.Pkg, Base: "string", Values: []synth.EnumConst{{Name: "UsageEnumA", Lit: `"a"`, Text: "a"}, {Name: "UsageEnumB", Lit: `"b"`, Text: "b"}}})
						p.Aliases = append(p.Aliases, synth.Alias{Name: "UsageAlias", Pkg: cc.Pkg, Base: "string"})
						var t synth.T
						switch ty {
						case "enum":
							t = synth.Named(cc.Pkg, "UsageEnum")
						case "alias":
							t = synth.Named(cc.Pkg, "UsageAlias")
						case "ptr-enum":
							t = synth.Ptr(synth.Named(cc.Pkg, "UsageEnum"))
						case "slice-enum":
							t = synth.Slice(synth.Named(cc.Pkg, "UsageEnum"))
						}
						if in == "path" && ty != "enum" && ty != "alias" {
							continue
						}
						m := synth.Method{Name: "UsageParam", Verb: "POST", Route: "/usageparam", Params: []synth.Param{{GoName: "u", Type: t, In: in, Validate: rl}}}
						if in == "path" {
							m.Route += "/{u}"
						}
						if strings.Contains(cc.Route, "{tenant}") {
							m.Params = append(m.Params, synth.Param{GoName: "tenant", Type: synth.Prim("string"), In: "path"})
						}
						cc.Methods = append(cc.Methods, m)
						cases = append(cases, &c14Case{Grammar: "validator-tags", Label: fmt.Sprintf("usage-%s-%s-%s-%s", in, ty, ver, rl), Project: p, Argv: c14Commands[k%2]})
					}
				}
			}
		}
	}
	// grammar 4: configuration documents
	cfgProject := base()
	doc := cfgProject.Config.Map()
	doc["routesConfig"].(map[string]any)["templateOverrides"] = map[string]any{}
	var leaves [][]string
	configLeaves(doc, nil, &leaves)
	mutants := []any{nil, 0, -1.5, "", []any{}, map[string]any{}, true, "a string where something else was expected", deepValue(60), strings.Repeat("x", 20000), []any{nil, 1, "x"}, 1e308}
	mi := 0
	for round := 0; round < scale; round++ {
		for _, leaf := range leaves {
			if len(leaf) == 0 {
				continue
			}
			for rep := 0; rep < 2; rep++ {
				p := base()
				d := p.Config.Map()
				mv := mutants[mi%len(mutants)]
				mi++
				label := strings.Join(leaf, ".")
				if rep == 1 && round == 0 {
					setAt(d, leaf, nil, true)
					label += " (removed)"
				} else {
					setAt(d, leaf, mv, false)
					label += fmt.Sprintf(" = %T", mv)
				}
				b, _ := json.MarshalIndent(d, "", " ")
				cases = append(cases, &c14Case{Grammar: "config", Label: label, Project: p, RawCfg: string(b), Argv: c14Commands[(mi%3)*0+(mi%5)/4*3]})
			}
		}
	}
	// every subset of the four oauth2 flows (plus an openIdConnect scheme), under both spec versions
	flowNames := []string{"implicit", "password", "clientCredentials", "authorizationCode"}
	for mask := 0; mask < 16; mask++ {
		for vi, ver := range []string{"3.0.0", "3.1.0"} {
			p := base()
			p.Config.OpenAPI = ver
			sc := synth.SecScheme{Name: "oauthScheme", Type: "oauth2", Description: "OAuth 2", Flows: map[string]*synth.OAuthFlow{}}
			for fi, fn := range flowNames {
				if mask&(1<<fi) == 0 {
					continue
				}
				f := &synth.OAuthFlow{Scopes: map[string]string{"read": "r", fn: "only " + fn}}
				if fn == "implicit" || fn == "authorizationCode" {
					f.AuthorizationURL = "https://auth.example.com/" + fn
				}
				if fn != "implicit" {
					f.TokenURL = "https://auth.example.com/" + fn + "/token"
				}
				if (mask+vi)%3 == 0 {
					f.Scopes = nil // "scopes" is required by the document format: must be reported or emitted, never crash
				}
				sc.Flows[fn] = f
			}
			p.Config.Schemes = append(p.Config.Schemes, sc, synth.SecScheme{Name: "oidcScheme", Type: "openIdConnect", Description: "OIDC", OpenIDConnectURL: "https://id.example.com/.well-known/openid-configuration"})
			cases = append(cases, &c14Case{Grammar: "config", Label: fmt.Sprintf("oauth2 flows mask=%04b openapi=%s", mask, ver), Project: p, RawCfg: p.Config.JSON(), Argv: c14Commands[vi%2]})
		}
	}
	raw := []string{"", "{", "[]", "null", "42", "\"str\"", "{\"commonConfig\": }", "// only a comment\n", "\ufeff{}", "{'commonConfig':{'controllerGlobs':['./ctl/*.go',],},}", "{commonConfig:{controllerGlobs:[1,2,3]}}", "{\"routesConfig\":{\"engine\":[\"gin\"]}}", strings.Repeat("[", 5000), "{\"a\":" + strings.Repeat("{\"a\":", 2000) + "1" + strings.Repeat("}", 2000) + "}"}
	for k, rc := range raw {
		p := base()
		cases = append(cases, &c14Case{Grammar: "config", Label: fmt.Sprintf("raw-%d", k), Project: p, RawCfg: rc, Argv: c14Commands[k%2*3]})
	}
	// template overrides / extensions pointing at odd places
	for k, ov := range []map[string]any{{"Routes": "./missing.hbs"}, {"NoSuchPartial": "./x.hbs"}, {"Imports": "./ctl"}, {"Routes": "./broken.hbs"}, {"Imports": "./broken.hbs"}} {
		p := base()
		d := p.Config.Map()
		d["routesConfig"].(map[string]any)["templateOverrides"] = ov
		b, _ := json.MarshalIndent(d, "", " ")
		cases = append(cases, &c14Case{Grammar: "config", Label: fmt.Sprintf("template-override-%d", k), Project: p, RawCfg: string(b), Files: map[string]string{"broken.hbs": "{{#each Controllers}} {{> NoSuchPartial}} {{/if}} {{{"}, Argv: c14Commands[0]})
	}
	// commands
	for k, argv := range [][]string{{"version"}, {"--help"}, {}, {"generate"}, {"dump"}, {"generate", "spec", "-c", "does-not-exist.json"}, {"dump", "graph", "-f", "svg"}, {"dump", "graph", "-o", "dist/g.dot"}, {"generate", "routes", "-v", "0", "-c", "gleece.config.json"}, {"generate", "spec", "-v", "5", "-c", "gleece.config.json"}, {"nonsense"}, {"generate", "spec", "--config"}} {
		p := base()
		cs := &c14Case{Grammar: "commands", Label: fmt.Sprintf("argv-%d %v", k, argv), Project: p, Argv: argv}
		cases = append(cases, cs)
	}
	{
		// no-arg root on a project that must fail
		p := base()
		p.Controllers[0].Methods = append(p.Controllers[0].Methods, synth.Method{Name: "Broken", Verb: "GET", Route: "/broken/{x}"})
		cases = append(cases, &c14Case{Grammar: "commands", Label: "no-arg root on a rejected project", Project: p, Argv: []string{}})
	}
	return cases
}

type c14Outcome struct {
	cs        *c14Case
	pr        orch.ProcResult
	dir       string
	crash     string
	missing   []string
	trace     string // H2 trace anomaly
	timedOut  bool
	traceSeen int
}

func checkMaterialiseTrace(path string) (anomaly string, events int) {
	f, err := os.Open(path)
	if err != nil {
		return "", 0
	}
	defer f.Close()
	active := map[string]bool{}
	seen := map[string]bool{}
	depth := 0
	sc := bufio.NewScanner(f)
	sc.Buffer(make([]byte, 1<<20), 1<<24)
	for sc.Scan() {
		var ev struct {
			Ev  string `json:"ev"`
			Key string `json:"key"`
		}
		if json.Unmarshal(sc.Bytes(), &ev) != nil {
			continue
		}
		switch ev.Ev {
		case "materialize-start":
			events++
			if active[ev.Key] {
				return "declaration " + ev.Key + " started while its materialisation was still active (re-entrant)", events
			}
			active[ev.Key] = true
			seen[ev.Key] = true
			depth++
			if depth > len(seen) {
				return fmt.Sprintf("materialisation nesting depth %d exceeds the %d distinct declarations seen", depth, len(seen)), events
			}
		case "materialize-end":
			events++
			k := ev.Key
			if i := strings.LastIndex(k, "|"); i >= 0 {
				k = k[:i]
			}
			if active[k] {
				delete(active, k)
				depth--
			}
		}
	}
	return "", events
}

func c14(c *orch.Ctx) (*report.Result, error) {
	res := &report.Result{Property: "C14"}
	bin, err := c.CLI()
	if err != nil {
		return nil, err
	}
	raceBin := ""
	if !c.Quick() {
		if raceBin, err = c.CLIRace(); err != nil {
			return nil, err
		}
	}
	l, err := lab.New(c)
	if err != nil {
		return nil, err
	}
	var cases []*c14Case
	if c.Replay != "" {
		var cs c14Case
		if err := loadCase(c.Replay, &cs); err != nil {
			return nil, err
		}
		cases = []*c14Case{&cs}
	} else {
		cases = genC14Cases(c)
	}
	outcomes := make([]*c14Outcome, len(cases))
	runCase := func(i int, timeout int, useRace bool) *c14Outcome {
		cs := cases[i]
		p := cs.Project
		dirName := fmt.Sprintf("%s-%04d", p.Name, i)
		p2 := *p
		p2.Name = dirName
		p2.ModPath = lab.ModPath + "/" + dirName
		p2.Config.AuthPkg = p2.ModPath + "/auth/gin"
		// the descriptor was generated under another module path: re-derive nothing else (imports use ModPath)
		rd := (&p2).Render(synth.RenderOpts{})
		for rel, content := range cs.Files {
			// extra files were written against the descriptor's module path; the case runs under its own
			rd.Files[rel] = strings.ReplaceAll(content, "\""+p.ModPath+"/", "\""+p2.ModPath+"/")
		}
		if cs.RawCfg != "" || cs.Grammar == "config" {
			rd.Files["gleece.config.json"] = cs.RawCfg
		}
		dir, err := l.Write(&p2, rd)
		if err != nil {
			panic(err)
		}
		tracePath := filepath.Join(c.Work, fmt.Sprintf("c14trace-%d.jsonl", i))
		_ = os.Remove(tracePath)
		b := bin
		if useRace {
			b = raceBin
		}
		cr := l.Gleece(b, dir, dirName, timeout, []string{"VERIF_TRACE=" + tracePath}, cs.Argv...)
		oc := &c14Outcome{cs: cs, pr: cr.ProcResult, dir: dir}
		oc.crash = lab.Classify(cr.ProcResult)
		oc.timedOut = cr.TimedOut || cr.Exit == 124
		if cr.Exit == 0 && !strings.Contains(cs.Label, "outputPath") {
			// (a corrupted outputPath that still is a string simply names another file: nothing is promised then)
			for _, f := range promisedFor(cs.Argv) {
				if _, err := os.Stat(filepath.Join(dir, f)); err != nil {
					oc.missing = append(oc.missing, f)
				}
			}
		}
		oc.trace, oc.traceSeen = checkMaterialiseTrace(tracePath)
		_ = os.Remove(tracePath)
		return oc
	}
	var mu sync.Mutex
	orch.ParallelMap(len(cases), c.Parallel, func(i int) {
		useRace := raceBin != "" && cases[i].Grammar == "validator-tags" && i%2 == 0
		t := 150
		if useRace {
			t = 400
		}
		oc := runCase(i, t, useRace)
		mu.Lock()
		outcomes[i] = oc
		mu.Unlock()
	})
	// watchdog hits are re-run once, alone
	for i, oc := range outcomes {
		if oc.timedOut {
			again := runCase(i, 400, false)
			if again.timedOut {
				again.crash = "hang"
			}
			outcomes[i] = again
		}
	}
	dist := report.NewDistincter()
	byGrammar := map[string]map[string]int{}
	h2Events := 0
	for _, oc := range outcomes {
		cs := oc.cs
		res.Evaluations++
		h2Events += oc.traceSeen
		outcome := fmt.Sprintf("exit=%d", oc.pr.Exit)
		if byGrammar[cs.Grammar] == nil {
			byGrammar[cs.Grammar] = map[string]int{}
		}
		where := map[string]string{"grammar": cs.Grammar}
		label := fmt.Sprintf("[%s: %s; argv=%v]", cs.Grammar, cs.Label, cs.Argv)
		out := lab.StripAnsi(oc.pr.Stderr + oc.pr.Stdout)
		switch {
		case oc.crash == "hang":
			outcome = "HANG"
			res.AddViolation("hang", where, fmt.Sprintf("%s did not terminate within 150 s and again not within 400 s when re-run alone; tail: %s", label, lab.Tail(out, 600)), cs)
		case oc.timedOut:
			outcome = "watchdog-once"
			res.Inc("watchdog hit once (inconclusive)")
		case oc.crash != "":
			outcome = "CRASH:" + oc.crash
			// signature: the first frame line below the panic message inside gleece
			sig := crashSignature(out)
			res.AddViolation("crash", map[string]string{"grammar": cs.Grammar, "site": sig}, fmt.Sprintf("%s %s (exit %d) at %s: %s", label, oc.crash, oc.pr.Exit, sig, firstPanicLine(out)), cs)
		case oc.pr.Exit != 0 && oc.pr.Exit != 1:
			outcome = "BAD-EXIT"
			res.AddViolation("unexpected-exit-status", where, fmt.Sprintf("%s exit status %d; tail: %s", label, oc.pr.Exit, lab.Tail(out, 300)), cs)
		case oc.pr.Exit == 0 && len(oc.missing) > 0:
			outcome = "EXIT0-MISSING-ARTIFACT"
			isRoot := fmt.Sprint(len(cs.Argv) == 0)
			res.AddViolation("exit-0-without-artifact", map[string]string{"grammar": cs.Grammar, "no_arg_root": isRoot}, fmt.Sprintf("%s exited 0 but %v does not exist; tail: %s", label, oc.missing, lab.Tail(out, 300)), cs)
		case oc.pr.Exit != 0 && strings.TrimSpace(out) == "":
			outcome = "SILENT-FAILURE"
			res.AddViolation("silent-failure", where, fmt.Sprintf("%s exited %d without any message", label, oc.pr.Exit), cs)
		}
		if oc.trace != "" {
			res.AddViolation("re-entrant-materialisation", where, fmt.Sprintf("%s %s", label, oc.trace), cs)
		}
		// a no-arg root run that failed must not exit 0
		if len(cs.Argv) == 0 && oc.pr.Exit == 0 && strings.Contains(out, "Failed to generate") {
			res.AddViolation("exit-0-after-reported-failure", map[string]string{"grammar": cs.Grammar, "no_arg_root": "true"}, fmt.Sprintf("%s logged a failure but exited 0: %s", label, lab.Tail(out, 300)), cs)
		}
		byGrammar[cs.Grammar][outcome]++
		dist.Add(cs.Grammar, cs.Label, strings.Join(cs.Argv, " "), outcome)
		if len(res.Samples) < 5 && (cs.Grammar != "constructs" || len(res.Samples) == 0) && len(out) > 0 {
			res.Samples = append(res.Samples, map[string]any{"grammar": cs.Grammar, "label": cs.Label, "argv": cs.Argv, "exit": oc.pr.Exit, "last_output_line": lastLine(out)})
		}
	}
	res.Distinct = dist.N()
	res.Rule = "a fixed, seed-determined list of child-process runs of the real CLI over four input grammars: (1) compilable projects containing one or several of 45 unsupported/unusual constructs (generics with declared args, inline structs, func/chan/interface types, fixed arrays, mutually recursive and alias-chained types, anonymous/variadic/grouped parameters, named results, exotic primitives, stdlib types ...); (2) 60 malformed method-level and 12 controller-level annotation lines (unbalanced JSON5, wrong property types, huge nesting, control characters, empty values); (3) validator tags: the 22 rule names x 15 malformed values on 16 field types, plus raw random tags, on struct fields and on parameters; (4) configuration documents: every leaf/container of a valid config replaced by 12 type-confused values or removed, raw malformed files, template overrides; x commands {generate spec|routes|spec-and-routes, dump graph dot|plain -o, version, help, no-arg root, bad flags}. Judged: crash signatures in stderr, exit status outside {0,1}, exit 0 without the promised artifact, silent failure, watchdog hit twice, re-entrant materialisation in the hook-H2 trace. distinct = distinct (grammar, label, argv, outcome)"
	res.Extra("outcomes_by_grammar", byGrammar)
	res.Extra("materialisation_events_checked", h2Events)
	res.Assumptions = []string{"watchdog 150 s (typical run 1.5 s); a hit is re-run alone with 400 s and only a second hit counts as a hang", "thorough tier runs half of grammar 3 against a -race build (checkptr)"}
	return res, nil
}

func firstPanicLine(out string) string {
	for _, ln := range strings.Split(out, "\n") {
		if strings.HasPrefix(ln, "panic:") || strings.HasPrefix(ln, "fatal error:") {
			if len(ln) > 200 {
				ln = ln[:200]
			}
			return ln
		}
	}
	return ""
}

// crashSignature: the first gleece frame (function name) in the goroutine dump.
func crashSignature(out string) string {
	lines := strings.Split(out, "\n")
	for i, ln := range lines {
		if strings.HasPrefix(ln, "github.com/gopher-fleece/gleece/v2/") && i+1 < len(lines) {
			fn := strings.TrimPrefix(ln, "github.com/gopher-fleece/gleece/v2/")
			if j := strings.Index(fn, "("); j > 0 {
				// keep "pkg/path.Func" but drop argument words
				if k := strings.LastIndex(fn[:j], "."); k > 0 {
					fn = fn[:j]
				}
			}
			return fn
		}
	}
	return "unknown"
}

func lastLine(out string) string {
	ls := strings.Split(strings.TrimSpace(out), "\n")
	s := ls[len(ls)-1]
	if len(s) > 200 {
		s = s[:200]
	}
	return s
}

func init() { Registry["C14"] = c14 }
