package props

import (
	"encoding/json"
	"fmt"
	"math"
	"math/rand"
	"net/url"
	"strconv"
	"strings"

	"verif/harness/synth"
)

// ---- values -----------------------------------------------------------------------------------

// primTyped parses wire text the way the Go language defines the conversion for the declared type
// (strconv with the type's own bit size) and returns the JSON text of the typed value.
func primTyped(name, wire string) (jsonText string, ok bool) {
	switch name {
	case "string":
		b, _ := json.Marshal(wire)
		return string(b), true
	case "bool":
		switch wire {
		case "true":
			return "true", true
		case "false":
			return "false", true
		}
		return "", false
	case "float32":
		f, err := strconv.ParseFloat(wire, 32)
		if err != nil {
			return "", false
		}
		b, _ := json.Marshal(float32(f))
		return string(b), true
	case "float64":
		f, err := strconv.ParseFloat(wire, 64)
		if err != nil {
			return "", false
		}
		b, _ := json.Marshal(f)
		return string(b), true
	}
	bits := map[string]int{"int": strconv.IntSize, "int8": 8, "int16": 16, "int32": 32, "int64": 64, "uint": strconv.IntSize, "uint8": 8, "uint16": 16, "uint32": 32, "uint64": 64}[name]
	if strings.HasPrefix(name, "uint") {
		v, err := strconv.ParseUint(wire, 10, bits)
		if err != nil {
			return "", false
		}
		return strconv.FormatUint(v, 10), true
	}
	v, err := strconv.ParseInt(wire, 10, bits)
	if err != nil {
		return "", false
	}
	return strconv.FormatInt(v, 10), true
}

var hostileStrings = []string{"plain", "a b", "x+y&z=1", "100%", "ünï-cödé", "日本語", "q?#frag", ";:@,", "..", "%2F", "tab\there", "'quoted\"", "-leading-dash", "UPPER", "0", "false", " "}
var headerSafeStrings = []string{"plain", "a b", "x+y&z=1", "100%", "q?#frag", ";:@,", "'quoted\"", "-dash", "UPPER", "0", "false", "tok/with/slash"}

func intBounds(name string) (min, max string) {
	switch name {
	case "int8":
		return "-128", "127"
	case "int16":
		return "-32768", "32767"
	case "int32":
		return "-2147483648", "2147483647"
	case "int64", "int":
		return "-9223372036854775808", "9223372036854775807"
	case "uint8":
		return "0", "255"
	case "uint16":
		return "0", "65535"
	case "uint32":
		return "0", "4294967295"
	case "uint64", "uint":
		return "0", "18446744073709551615"
	}
	return "0", "0"
}

// wireFor picks a wire text for a primitive. class: typical | boundary | zero
func wireFor(r *rand.Rand, name, class, in string) string {
	switch {
	case name == "string":
		pool := hostileStrings
		if in == "header" {
			pool = headerSafeStrings
		}
		if class == "typical" {
			if in == "path" {
				return pool[r.Intn(2)]
			}
			return pool[r.Intn(3)]
		}
		if class == "zero" && in != "path" && in != "header" {
			return ""
		}
		s := pool[r.Intn(len(pool))]
		if in == "path" && (s == ".." || s == " " || s == "%2F" || strings.ContainsAny(s, "/+")) {
			s = "a b" // '+' in a path segment is turned into a blank by fiber's UnescapePath: engine matter
		}
		return s
	case name == "bool":
		if class == "zero" {
			return "false"
		}
		return []string{"true", "false"}[r.Intn(2)]
	case strings.HasPrefix(name, "float"):
		if class == "zero" {
			return "0"
		}
		if class == "boundary" {
			if name == "float32" {
				return []string{"3.4028235e38", "-3.4028235e38", "1e-45"}[r.Intn(3)]
			}
			return []string{"1.7976931348623157e308", "-1.7976931348623157e308", "5e-324"}[r.Intn(3)]
		}
		return []string{"0.5", "-2.75", "1e10", "42", "1.25"}[r.Intn(5)]
	}
	min, max := intBounds(name)
	switch class {
	case "zero":
		return "0"
	case "boundary":
		return []string{min, max}[r.Intn(2)]
	}
	if strings.HasPrefix(name, "uint") {
		return strconv.Itoa(r.Intn(200))
	}
	return strconv.Itoa(r.Intn(200) - 100)
}

func outOfRange(name string) string {
	_, max := intBounds(name)
	switch name {
	case "int64", "int":
		return "9223372036854775808"
	case "uint64", "uint":
		return "18446744073709551616"
	}
	v, _ := strconv.ParseInt(max, 10, 64)
	return strconv.FormatInt(v+1, 10)
}

// validator semantics the router labs model (profile RuntimeValidators)
func satisfies(validate, prim, wire string) bool {
	for _, rule := range strings.Split(validate, ",") {
		kv := strings.SplitN(rule, "=", 2)
		if len(kv) != 2 {
			continue
		}
		switch prim {
		case "string":
			n := float64(len([]rune(wire)))
			x, _ := strconv.ParseFloat(kv[1], 64)
			switch kv[0] {
			case "min":
				if n < x {
					return false
				}
			case "max":
				if n > x {
					return false
				}
			case "len":
				if n != x {
					return false
				}
			case "oneof":
				ok := false
				for _, o := range strings.Fields(kv[1]) {
					if o == wire {
						ok = true
					}
				}
				if !ok {
					return false
				}
			}
		default:
			v, err := strconv.ParseFloat(wire, 64)
			x, err2 := strconv.ParseFloat(kv[1], 64)
			if err != nil || err2 != nil {
				continue
			}
			switch kv[0] {
			case "gte":
				if v < x {
					return false
				}
			case "lte":
				if v > x {
					return false
				}
			case "gt":
				if v <= x {
					return false
				}
			case "lt":
				if v >= x {
					return false
				}
			}
		}
	}
	return true
}

// validWire: a wire text satisfying the validator (nil if none found).
func validWire(r *rand.Rand, validate, prim, class, in string) (string, bool) {
	for tries := 0; tries < 40; tries++ {
		w := wireFor(r, prim, class, in)
		if prim == "string" && strings.Contains(validate, "oneof=") {
			for _, rule := range strings.Split(validate, ",") {
				if strings.HasPrefix(rule, "oneof=") {
					opts := strings.Fields(strings.TrimPrefix(rule, "oneof="))
					w = opts[r.Intn(len(opts))]
				}
			}
		}
		if prim == "string" && (strings.Contains(validate, "len=") || strings.Contains(validate, "min=") || strings.Contains(validate, "max=")) && !satisfies(validate, prim, w) {
			w = []string{"ab", "abcd", "abcdefgh", "ünï!", "xy"}[r.Intn(5)]
		}
		if class == "boundary" && !satisfies(validate, prim, w) {
			class = "typical"
			continue
		}
		if prim != "string" && !satisfies(validate, prim, w) {
			w = []string{"1", "5", "50", "100", "99"}[r.Intn(5)]
		}
		if satisfies(validate, prim, w) && (in != "path" || w != "") {
			if prim == "string" && strings.Contains(validate, "required") && w == "" {
				continue
			}
			return w, true
		}
	}
	return "", false
}

func violatingWire(validate, prim string) (string, bool) {
	for _, w := range []string{"a", "abcdefghijklmnopqrstuvwxyz", "abc", "zz", "0", "-5", "1000", "121", "100000"} {
		if _, ok := primTyped(prim, w); !ok {
			continue
		}
		if !satisfies(validate, prim, w) {
			return w, true
		}
	}
	return "", false
}

// underlying primitive of a parameter's base type ("" for structs etc.)
func primOf(p *synth.Project, t synth.T) string {
	b := t.Base()
	switch b.K {
	case "prim":
		return b.Name
	case "named":
		if e := p.Enum(b.Pkg, b.Name); e != nil {
			return e.Base
		}
		if a := p.Alias(b.Pkg, b.Name); a != nil {
			return a.Base
		}
	}
	return ""
}

// sampleJSON builds a JSON value for a type (bodies). Non-zero everywhere so omitempty keeps it.
func sampleJSON(r *rand.Rand, p *synth.Project, t synth.T, depth int) any {
	switch t.K {
	case "prim":
		switch {
		case t.Name == "string":
			return []string{"s", "a b", "ünï"}[r.Intn(3)]
		case t.Name == "bool":
			return true
		case strings.HasPrefix(t.Name, "float"):
			return []float64{0.5, 1.25, -2.75}[r.Intn(3)]
		case strings.HasPrefix(t.Name, "uint"):
			return float64(1 + r.Intn(100))
		default:
			return float64(1 + r.Intn(100))
		}
	case "ptr":
		return sampleJSON(r, p, *t.Elem, depth)
	case "slice":
		if depth > 3 {
			return []any{}
		}
		return []any{sampleJSON(r, p, *t.Elem, depth+1)}
	case "map":
		return map[string]any{"k": sampleJSON(r, p, *t.Elem, depth+1)}
	case "any":
		return "anything"
	case "bytes":
		return "Ynl0ZXM="
	case "time":
		return "2023-11-14T22:13:20Z"
	case "named":
		if e := p.Enum(t.Pkg, t.Name); e != nil {
			v := e.Values[r.Intn(len(e.Values))]
			// json.Number keeps the digits of constants beyond 2^53 (top of the uint64 range)
			var x any
			d := json.NewDecoder(strings.NewReader(v.Lit))
			d.UseNumber()
			_ = d.Decode(&x)
			return x
		}
		if a := p.Alias(t.Pkg, t.Name); a != nil {
			return sampleJSON(r, p, synth.Prim(a.Base), depth)
		}
		if st := p.Struct(t.Pkg, t.Name); st != nil {
			obj := map[string]any{}
			if depth > 3 {
				return obj
			}
			for _, f := range st.Fields {
				w := f.WireName()
				if w == "" {
					continue
				}
				if f.Type.Base().K == "named" && f.Type.Base().Name == st.Name {
					continue // self reference: leave out (nil)
				}
				if f.Validate != "" && f.Type.K == "prim" && !strings.HasSuffix(f.Validate, "_enum") {
					// a validated primitive field gets a value that passes its validator
					if vw, ok := validWire(r, f.Validate, f.Type.Name, "typical", "body"); ok {
						if js, ok2 := primTyped(f.Type.Name, vw); ok2 {
							var x any
							d := json.NewDecoder(strings.NewReader(js))
							d.UseNumber()
							if d.Decode(&x) == nil {
								obj[w] = x
								continue
							}
						}
					}
				}
				obj[w] = sampleJSON(r, p, f.Type, depth+1)
			}
			return obj
		}
	}
	return nil
}

// ---- requests ---------------------------------------------------------------------------------

type ArgExpect struct {
	Name  string `json:"name"`
	JSON  string `json:"json"`
	IsCtx bool   `json:"is_ctx,omitempty"`
	// Loose: compare after JSON parsing (struct bodies)
	Loose bool `json:"loose,omitempty"`
}

type BuiltRequest struct {
	Req       Request     `json:"req"`
	Ctl       string      `json:"ctl"` // "<pkgname>.<Ctl>"
	Method    string      `json:"method"`
	Args      []ArgExpect `json:"args,omitempty"`
	Expect422 bool        `json:"expect_422,omitempty"`
	Why       string      `json:"why"`
	Negative  bool        `json:"negative,omitempty"` // no call expected at all (C02 probes)
}

type reqPlan struct {
	Class        string // typical | boundary | zero
	Omit         string // Go name of a parameter to leave out
	IllTyped     string // Go name of a parameter to send with an unconvertible value
	Violate      string // Go name of a parameter to send with a validator-violating value
	BadBody      bool
	OmitOptional bool   // leave out every optional (pointer, no required) parameter
	BadEnum      string // Go name of an enum-typed parameter to send with a value that is no member
	Decoys       bool   // repeat every parameter's wire name with a decoy value in the locations it is NOT declared in
}

func isRequired(pr synth.Param) bool { return pr.Required() }

// buildRequest renders one request for a route; ok=false when the plan is not applicable.
func buildRequest(r *rand.Rand, p *synth.Project, c *synth.Controller, m *synth.Method, rid string, plan reqPlan) (BuiltRequest, bool) {
	br := BuiltRequest{Ctl: p.Pkg(c.Pkg).Name + "." + c.Name, Method: m.Name}
	br.Req = Request{Rid: rid, Verb: m.Verb, Headers: map[string]string{}}
	tmpl := synth.FullRoute(c, m)
	q := url.Values{}
	form := url.Values{}
	hasForm := false
	pathVals := map[string]string{}
	why := []string{plan.Class}
	for _, pr := range m.Params {
		if pr.In == "ctx" {
			br.Args = append(br.Args, ArgExpect{Name: pr.GoName, IsCtx: true})
			continue
		}
		prim := primOf(p, pr.Type)
		isSlice := pr.Type.Deref().IsSlice() && pr.In == "query"
		omit := plan.Omit == pr.GoName || (plan.OmitOptional && !isRequired(pr) && pr.Validate == "")
		if omit {
			if isRequired(pr) {
				br.Expect422 = true
				why = append(why, "omitted required "+pr.In+" "+pr.GoName)
			} else if pr.Validate != "" {
				// whether an absent optional value must pass its validator is not stated: not exercised
				return br, false
			} else {
				br.Args = append(br.Args, ArgExpect{Name: pr.GoName, JSON: "null"})
				why = append(why, "omitted optional "+pr.GoName)
			}
			if pr.In == "path" {
				return br, false // a path parameter cannot be omitted without changing the route
			}
			continue
		}
		if pr.In == "body" {
			var bodyText string
			if plan.BadBody && plan.Class == "boundary" {
				// a complete JSON value followed by more data is not a JSON document either
				v := sampleJSON(r, p, pr.Type, 0)
				b, _ := json.Marshal(v)
				bodyText = string(b) + ` {"second": "value"}`
				br.Expect422 = true
				why = append(why, "JSON body followed by trailing data")
			} else if plan.BadBody {
				bodyText = `{"broken": `
				br.Expect422 = true
				why = append(why, "malformed JSON body")
			} else {
				v := sampleJSON(r, p, pr.Type, 0)
				b, _ := json.Marshal(v)
				bodyText = string(b)
				br.Args = append(br.Args, ArgExpect{Name: pr.GoName, JSON: bodyText, Loose: true})
			}
			br.Req.Body = &bodyText
			br.Req.CType = "application/json"
			continue
		}
		if prim == "" {
			return br, false
		}
		// wire values
		n := 1
		if isSlice {
			n = 1 + r.Intn(3)
		}
		var wires []string
		var jsons []string
		for i := 0; i < n; i++ {
			var w string
			switch {
			case plan.IllTyped == pr.GoName:
				if prim == "string" {
					return br, false
				}
				w = []string{"abc", outOfRange(prim), "1.5x", ""}[r.Intn(3)]
				if prim == "bool" {
					w = "maybe"
				}
				if strings.HasPrefix(prim, "float") {
					w = "abc"
				}
				if pr.In == "path" && w == "" {
					w = "abc"
				}
				br.Expect422 = true
				why = append(why, "ill-typed "+pr.In+" "+pr.GoName+"="+w)
			case plan.BadEnum == pr.GoName:
				e := p.Enum(pr.Type.Base().Pkg, pr.Type.Base().Name)
				if e == nil || pr.Type.Base().K != "named" || isSlice {
					return br, false
				}
				switch {
				case e.Base == "string":
					w = "no-such-member"
				case e.Base == "bool":
					return br, false
				case strings.HasPrefix(e.Base, "float"):
					w = "123.25"
				default:
					w = "101" // fits every integer width; the generated constants never take this value
				}
				for _, v := range e.Values {
					if v.Text == w {
						return br, false
					}
				}
				br.Expect422 = true
				why = append(why, "value "+w+" is no member of enum "+e.Name+" ("+pr.In+" "+pr.GoName+")")
			case plan.Violate == pr.GoName:
				vw, ok := violatingWire(pr.Validate, prim)
				if !ok || p.KindOf(pr.Type.Base()) == "enum" {
					return br, false
				}
				w = vw
				br.Expect422 = true
				why = append(why, "validator "+pr.Validate+" violated by "+pr.GoName+"="+w)
			default:
				if e := p.Enum(pr.Type.Base().Pkg, pr.Type.Base().Name); e != nil && pr.Type.Base().K == "named" {
					w = e.Values[r.Intn(len(e.Values))].Text
				} else {
					vw, ok := validWire(r, pr.Validate, prim, plan.Class, pr.In)
					if !ok {
						return br, false
					}
					w = vw
				}
				if pr.In == "path" && (w == "" || w == "." || w == "..") {
					w = "v"
				}
			}
			wires = append(wires, w)
			if js, ok := primTyped(prim, w); ok {
				jsons = append(jsons, js)
			}
		}
		if !br.Expect422 || (plan.IllTyped != pr.GoName && plan.Violate != pr.GoName && plan.BadEnum != pr.GoName) {
			js := ""
			if isSlice {
				js = "[" + strings.Join(jsons, ",") + "]"
			} else if len(jsons) == 1 {
				js = jsons[0]
			}
			br.Args = append(br.Args, ArgExpect{Name: pr.GoName, JSON: js})
		}
		switch pr.In {
		case "path":
			pathVals[pr.WireName()] = wires[0]
		case "query":
			for _, w := range wires {
				q.Add(pr.WireName(), w)
			}
		case "header":
			br.Req.Headers[pr.WireName()] = wires[0]
		case "form":
			hasForm = true
			form.Add(pr.WireName(), wires[0])
		}
	}
	if plan.Decoys {
		taken := map[string]bool{}
		hasBody := false
		for _, pr := range m.Params {
			taken[pr.In+":"+strings.ToLower(pr.WireName())] = true
			if pr.In == "body" {
				hasBody = true
			}
		}
		canForm := !hasBody && (m.Verb == "POST" || m.Verb == "PUT" || m.Verb == "PATCH")
		planted := 0
		for _, pr := range m.Params {
			if pr.In == "ctx" || pr.In == "body" {
				continue
			}
			name := pr.WireName()
			// a decoy is a well-typed value (so that a router reading the wrong source delivers it instead of
			// failing on conversion, which would look like the expected refusal)
			decoy := "decoy"
			switch prim := primOf(p, pr.Type); {
			case prim == "bool":
				decoy = "true"
			case strings.HasPrefix(prim, "float"):
				decoy = "7.5"
			case strings.HasPrefix(prim, "int") || strings.HasPrefix(prim, "uint"):
				decoy = "77"
			}
			if e := p.Enum(pr.Type.Base().Pkg, pr.Type.Base().Name); e != nil && pr.Type.Base().K == "named" {
				decoy = e.Values[len(e.Values)-1].Text
			}
			if pr.In != "query" && !taken["query:"+strings.ToLower(name)] {
				q.Add(name, decoy)
				planted++
			}
			if pr.In != "header" && !taken["header:"+strings.ToLower(name)] && !strings.ContainsAny(name, " :") {
				br.Req.Headers[name] = decoy
				planted++
			}
			if pr.In != "form" && canForm && !taken["form:"+strings.ToLower(name)] {
				hasForm = true
				form.Add(name, decoy)
				planted++
			}
		}
		if planted == 0 {
			return br, false
		}
		why = append(why, fmt.Sprintf("%d same-named decoys in the other locations", planted))
	}
	// concrete path
	path := tmpl
	for name, v := range pathVals {
		// canonical encoding (what Go's URL type emits for a decoded path): over-escaped forms such as
		// %3B for ';' make net/url keep RawPath, which echo and chi then route on without unescaping -
		// an engine matter, not judged (DESIGN §3 rule 5)
		path = strings.ReplaceAll(path, "{"+name+"}", (&url.URL{Path: v}).EscapedPath())
	}
	if strings.Contains(path, "{") {
		return br, false
	}
	if !strings.HasPrefix(path, "/") {
		// a request target always starts with a slash, whether or not the annotations spelled one
		path = "/" + path
	}
	br.Req.Target = path
	if len(q) > 0 {
		br.Req.Target += "?" + q.Encode()
	}
	if hasForm {
		s := form.Encode()
		br.Req.Body = &s
		br.Req.CType = "application/x-www-form-urlencoded"
	}
	br.Why = strings.Join(why, "; ")
	return br, true
}

// sameJSON compares two JSON texts structurally (numbers as json.Number).
func sameJSON(a, b string) bool {
	var x, y any
	da := json.NewDecoder(strings.NewReader(a))
	da.UseNumber()
	db := json.NewDecoder(strings.NewReader(b))
	db.UseNumber()
	if da.Decode(&x) != nil || db.Decode(&y) != nil {
		return a == b
	}
	return deepEqualJSON(x, y)
}

func deepEqualJSON(x, y any) bool {
	switch a := x.(type) {
	case map[string]any:
		b, ok := y.(map[string]any)
		if !ok {
			return false
		}
		// absent == zero-valued/omitted is NOT assumed: keys must match, except null == absent
		for k, v := range a {
			if w, ok := b[k]; ok {
				if !deepEqualJSON(v, w) {
					return false
				}
			} else if !emptyJSON(v) {
				return false
			}
		}
		for k, w := range b {
			if _, ok := a[k]; !ok && !emptyJSON(w) {
				return false
			}
		}
		return true
	case []any:
		b, ok := y.([]any)
		if !ok || len(a) != len(b) {
			return false
		}
		for i := range a {
			if !deepEqualJSON(a[i], b[i]) {
				return false
			}
		}
		return true
	case json.Number:
		b, ok := y.(json.Number)
		if !ok {
			return false
		}
		if a.String() == b.String() {
			return true
		}
		fa, e1 := a.Float64()
		fb, e2 := b.Float64()
		return e1 == nil && e2 == nil && fa == fb && !math.IsInf(fa, 0)
	default:
		return fmt.Sprint(x) == fmt.Sprint(y) && (x == nil) == (y == nil)
	}
}

// emptyJSON: null, [], {}, 0, false and "" are what omitempty drops when the recorded argument is
// marshalled again (and what an absent key decodes to); an absent key equals them.
func emptyJSON(v any) bool {
	switch t := v.(type) {
	case nil:
		return true
	case json.Number:
		f, err := t.Float64()
		return err == nil && f == 0
	case float64:
		return t == 0
	case bool:
		return !t
	case string:
		return t == ""
	case []any:
		return len(t) == 0
	case map[string]any:
		return len(t) == 0
	}
	return false
}
