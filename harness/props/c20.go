package props

import (
	"encoding/json"
	"fmt"
	"go/parser"
	"go/token"
	"os"
	"path/filepath"
	"sort"
	"strings"
	"sync"

	"verif/harness/lab"
	"verif/harness/oapi"
	"verif/harness/orch"
	"verif/harness/report"
	"verif/harness/rng"
	"verif/harness/synth"
)

// one row of the constraint catalogue (DESIGN Appendix I)
type cfgCorruption struct {
	ID     string
	Path   []string // path inside the config document
	Value  any      // nil + Remove => delete the key
	Remove bool
	Names  []string // the message must mention one of these (case-insensitive)
	Judged bool
	Needs  string // "contact" | "license" | "default" : optional section that must be present in the base
	// NoName: the rejection comes from JSON typing (the decoder's error carries no field name); only
	// "rejected up front, nothing written" is judged for such rows
	NoName bool
}

var schemePath = []string{"openapiGeneratorConfig", "securitySchemes", "0"}

func sp(k string) []string { return append(append([]string{}, schemePath...), k) }

var cfgCatalogue = []cfgCorruption{
	{ID: "routesConfig removed", Path: []string{"routesConfig"}, Remove: true, Names: []string{"routesConfig", "Engine", "OutputPath", "AuthFileFullPackageName", "AuthorizationConfig"}, Judged: true},
	{ID: "engine removed", Path: []string{"routesConfig", "engine"}, Remove: true, Names: []string{"engine"}, Judged: true},
	{ID: "engine=Gin", Path: []string{"routesConfig", "engine"}, Value: "Gin", Names: []string{"engine"}, Judged: true},
	{ID: "engine=express", Path: []string{"routesConfig", "engine"}, Value: "express", Names: []string{"engine"}, Judged: true},
	{ID: "engine=empty", Path: []string{"routesConfig", "engine"}, Value: "", Names: []string{"engine"}, Judged: true},
	{ID: "routes outputPath removed", Path: []string{"routesConfig", "outputPath"}, Remove: true, Names: []string{"outputPath"}, Judged: true},
	{ID: "routes outputPath empty", Path: []string{"routesConfig", "outputPath"}, Value: "", Names: []string{"outputPath"}, Judged: true},
	{ID: "perms=0999", Path: []string{"routesConfig", "outputFilePerms"}, Value: "0999", Names: []string{"outputFilePerms"}, Judged: true},
	{ID: "perms=rwx", Path: []string{"routesConfig", "outputFilePerms"}, Value: "rwx", Names: []string{"outputFilePerms"}, Judged: true},
	{ID: "perms=07777", Path: []string{"routesConfig", "outputFilePerms"}, Value: "07777", Names: []string{"outputFilePerms"}, Judged: true},
	{ID: "perms=64", Path: []string{"routesConfig", "outputFilePerms"}, Value: "64", Names: []string{"outputFilePerms"}, Judged: true},
	{ID: "authorizationConfig removed", Path: []string{"routesConfig", "authorizationConfig"}, Remove: true, Names: []string{"authorizationConfig", "AuthFileFullPackageName"}, Judged: true},
	{ID: "authFileFullPackageName removed", Path: []string{"routesConfig", "authorizationConfig", "authFileFullPackageName"}, Remove: true, Names: []string{"AuthFileFullPackageName"}, Judged: true},
	{ID: "authFileFullPackageName empty", Path: []string{"routesConfig", "authorizationConfig", "authFileFullPackageName"}, Value: "", Names: []string{"AuthFileFullPackageName"}, Judged: true},
	{ID: "openapiGeneratorConfig removed", Path: []string{"openapiGeneratorConfig"}, Remove: true, Names: []string{"openapiGeneratorConfig", "OpenAPI", "Title", "Version", "BaseURL", "Info"}, Judged: true},
	{ID: "openapi removed", Path: []string{"openapiGeneratorConfig", "openapi"}, Remove: true, Names: []string{"openapi"}, Judged: true},
	{ID: "openapi=3.0.1", Path: []string{"openapiGeneratorConfig", "openapi"}, Value: "3.0.1", Names: []string{"openapi"}, Judged: true},
	{ID: "openapi=2.0", Path: []string{"openapiGeneratorConfig", "openapi"}, Value: "2.0", Names: []string{"openapi"}, Judged: true},
	{ID: "openapi=3 (number)", Path: []string{"openapiGeneratorConfig", "openapi"}, Value: 3, Names: []string{"openapi"}, Judged: true, NoName: true},
	{ID: "info removed", Path: []string{"openapiGeneratorConfig", "info"}, Remove: true, Names: []string{"info", "Title", "Version"}, Judged: true},
	{ID: "info.title removed", Path: []string{"openapiGeneratorConfig", "info", "title"}, Remove: true, Names: []string{"title"}, Judged: true},
	{ID: "info.version removed", Path: []string{"openapiGeneratorConfig", "info", "version"}, Remove: true, Names: []string{"version"}, Judged: true},
	{ID: "contact.email invalid", Path: []string{"openapiGeneratorConfig", "info", "contact", "email"}, Value: "not-an-email", Names: []string{"email"}, Judged: true, Needs: "contact"},
	{ID: "license without name", Path: []string{"openapiGeneratorConfig", "info", "license", "name"}, Remove: true, Names: []string{"name", "license"}, Judged: true, Needs: "license"},
	{ID: "baseUrl removed", Path: []string{"openapiGeneratorConfig", "baseUrl"}, Remove: true, Names: []string{"baseUrl"}, Judged: true},
	{ID: "baseUrl=not a url", Path: []string{"openapiGeneratorConfig", "baseUrl"}, Value: "not a url", Names: []string{"baseUrl"}, Judged: true},
	{ID: "baseUrl=/relative", Path: []string{"openapiGeneratorConfig", "baseUrl"}, Value: "/relative", Names: []string{"baseUrl"}, Judged: true},
	{ID: "scheme description removed", Path: sp("description"), Remove: true, Names: []string{"description"}, Judged: true},
	{ID: "scheme name removed", Path: sp("name"), Remove: true, Names: []string{"name", "SecurityName"}, Judged: true},
	{ID: "scheme name=1abc", Path: sp("name"), Value: "1abc", Names: []string{"name", "SecurityName"}, Judged: true},
	{ID: "scheme scheme=bearerx", Path: sp("scheme"), Value: "bearerx", Names: []string{"scheme"}, Judged: true},
	{ID: "scheme fieldName=9key", Path: sp("fieldName"), Value: "9key", Names: []string{"fieldName"}, Judged: true},
	{ID: "scheme type removed", Path: sp("type"), Remove: true, Names: []string{"type"}, Judged: true},
	{ID: "scheme type=apikey", Path: sp("type"), Value: "apikey", Names: []string{"type"}, Judged: true},
	{ID: "scheme in=body", Path: sp("in"), Value: "body", Names: []string{"in"}, Judged: true},
	{ID: "scheme openIdConnectUrl=nope", Path: sp("openIdConnectUrl"), Value: "nope", Names: []string{"openIdConnectUrl"}, Judged: true},
	{ID: "defaultSecurity.name removed", Path: []string{"openapiGeneratorConfig", "defaultSecurity", "name"}, Remove: true, Names: []string{"name", "SchemaName"}, Judged: true, Needs: "default"},
	{ID: "defaultSecurity.name=_x", Path: []string{"openapiGeneratorConfig", "defaultSecurity", "name"}, Value: "_x", Names: []string{"name", "SchemaName"}, Judged: true, Needs: "default"},
	{ID: "defaultSecurity.scopes removed", Path: []string{"openapiGeneratorConfig", "defaultSecurity", "scopes"}, Remove: true, Names: []string{"scopes"}, Judged: true, Needs: "default"},
	{ID: "spec outputPath removed", Path: []string{"openapiGeneratorConfig", "specGeneratorConfig", "outputPath"}, Remove: true, Names: []string{"outputPath", "specGeneratorConfig"}, Judged: true},
	{ID: "specGeneratorConfig removed", Path: []string{"openapiGeneratorConfig", "specGeneratorConfig"}, Remove: true, Names: []string{"outputPath", "specGeneratorConfig"}, Judged: true},
	{ID: "commonConfig removed (observed only: default globs exist)", Path: []string{"commonConfig"}, Remove: true, Names: []string{"commonConfig"}, Judged: false},
}

// json5ify rewrites a JSON document with comments, unquoted keys and trailing commas.
func json5ify(doc string) string {
	var out []string
	for i, ln := range strings.Split(doc, "\n") {
		t := strings.TrimSpace(ln)
		// "key": value  -> key: value   (only identifier-like keys)
		if strings.HasPrefix(t, "\"") {
			if j := strings.Index(t[1:], "\""); j > 0 {
				key := t[1 : 1+j]
				rest := t[2+j:]
				ident := true
				for _, c := range key {
					if !(c == '_' || c >= 'a' && c <= 'z' || c >= 'A' && c <= 'Z') {
						ident = false
					}
				}
				if ident && strings.HasPrefix(rest, ":") {
					ln = strings.Replace(ln, "\""+key+"\"", key, 1)
				}
			}
		}
		if i%7 == 3 {
			ln += " // a comment"
		}
		out = append(out, ln)
	}
	s := strings.Join(out, "\n")
	// trailing commas before closing braces/brackets
	s = strings.ReplaceAll(s, "\"\n  }", "\",\n  }")
	return "/* JSON5 configuration */\n" + s
}

type c20Case struct {
	Kind       string         `json:"kind"` // corrupt | honour
	Corruption string         `json:"corruption,omitempty"`
	Project    *synth.Project `json:"project"`
	JSON5      bool           `json:"json5"`
	Decoys     []string       `json:"decoys,omitempty"`
	Twins      []string       `json:"twins,omitempty"`
}

const brokenGo = "package ctl\n\nfunc broken( {\n"

func decoyController(pkgName, ctlName string) string {
	return "package " + pkgName + "\n\nimport (\n\t\"github.com/gopher-fleece/runtime\"\n)\n\n// @Tag(Decoy)\n// @Route(/decoy" + strings.ToLower(ctlName) + ")\ntype " + ctlName + " struct {\n\truntime.GleeceController\n}\n\n// @Method(GET)\n// @Route(/ping" + strings.ToLower(ctlName) + ")\nfunc (c *" + ctlName + ") Ping" + ctlName + "() (string, error) {\n\treturn \"\", nil\n}\n"
}

func c20(c *orch.Ctx) (*report.Result, error) {
	res := &report.Result{Property: "C20"}
	bin, err := c.CLI()
	if err != nil {
		return nil, err
	}
	l, err := lab.New(c)
	if err != nil {
		return nil, err
	}
	rounds, nHonour := 2, 40
	if !c.Quick() {
		rounds, nHonour = 12, 400
	}
	prof := synth.Profiles["security"]
	prof.MaxControllers, prof.MultiPkg, prof.EnforceP = 2, true, 0
	var cases []*c20Case
	mutate := map[*c20Case]func(doc map[string]any){}
	idx := 0
	newProject := func() *synth.Project {
		idx++
		r := rng.New(c.Seed, "C20", fmt.Sprint(idx))
		p := synth.Gen(r, prof, fmt.Sprintf("p%04d", idx), lab.ModPath)
		p.Config.Perms = ""
		return p
	}
	if c.Replay != "" {
		return nil, fmt.Errorf("C20 replays are re-generated from the seed: run ./check C20 %s with VERIF_SEED of the witness", c.Tier)
	}
	for round := 0; round < rounds; round++ {
		for ci := range cfgCatalogue {
			cc := cfgCatalogue[ci]
			p := newProject()
			r := rng.New(c.Seed, "C20", "corrupt", fmt.Sprint(round), cc.ID)
			switch cc.Needs {
			case "contact":
				p.Config.ContactName, p.Config.ContactEmail = "Support", "support@example.com"
			case "license":
				p.Config.LicenseName, p.Config.LicenseURL = "MIT", "https://opensource.org/licenses/MIT"
			case "default":
				p.Config.DefaultSecurity = &synth.Security{Scheme: "apiKeyAuth", Scopes: []string{"read"}}
			}
			if r.Intn(2) == 0 {
				p.Config.Perms = "0640"
			}
			p.Config.Engine = []string{"gin", "echo", "mux", "chi", "fiber"}[r.Intn(5)]
			cs := &c20Case{Kind: "corrupt", Corruption: cc.ID, Project: p, JSON5: r.Intn(3) == 0}
			mutate[cs] = func(doc map[string]any) { setAt(doc, cc.Path, cc.Value, cc.Remove) }
			cases = append(cases, cs)
		}
	}
	engines := []string{"gin", "echo", "mux", "chi", "fiber"}
	permsList := []string{"", "0644", "0600", "0640", "0755", "644", "0444", "0666", "000", "0000", "0400", "007"}
	for i := 0; i < nHonour; i++ {
		p := newProject()
		r := rng.New(c.Seed, "C20", "honour", fmt.Sprint(i))
		p.Config.Engine = engines[i%5]
		p.Config.OpenAPI = []string{"3.0.0", "3.1.0"}[(i/5)%2]
		p.Config.Perms = permsList[r.Intn(len(permsList))]
		if r.Intn(2) == 0 {
			p.Config.PackageName = []string{"api", "generated", "myroutes"}[r.Intn(3)]
		}
		p.Config.RoutesOut = []string{"./dist/routes/gleece.routes.go", "./out/deep/er/r.gleece.go", "./gen_routes.go"}[r.Intn(3)]
		p.Config.SpecOut = []string{"./dist/openapi.json", "./api-docs/spec.v1.json", "./swagger.json"}[r.Intn(3)]
		if r.Intn(2) == 0 {
			p.Config.InfoDescr, p.Config.Terms = "Described — ünï", "https://example.com/terms"
		}
		if r.Intn(2) == 0 {
			p.Config.ContactName, p.Config.ContactEmail, p.Config.ContactURL = "Team", "team@example.com", "https://example.com"
		}
		if r.Intn(2) == 0 {
			p.Config.LicenseName = "Apache-2.0"
		}
		cs := &c20Case{Kind: "honour", Project: p, JSON5: r.Intn(3) == 0}
		// files with the same base name in different directories are different files
		twin := false
		if r.Intn(2) == 0 {
			twin = true
			seenPkg := map[string]bool{}
			for ci := range p.Controllers {
				cc := &p.Controllers[ci]
				if !seenPkg[cc.Pkg] && !cc.Decoy && len(cc.Files) > 0 {
					seenPkg[cc.Pkg] = true
					cc.Files[0] = "controller.go"
				}
			}
			if len(seenPkg) > 1 {
				p.SetFeature("same-file-name-in-several-directories")
			}
		}
		// decoy controllers outside the globs
		if p.ExtraFiles == nil {
			p.ExtraFiles = map[string]string{}
		}
		switch r.Intn(4) {
		case 3: // glob expressions that match nothing, in front of and between the real ones
			gl := []string{"./no-such-dir/*.go"}
			for _, g := range p.Config.Globs {
				gl = append(gl, g, "./"+strings.TrimPrefix(filepath.Dir(g), "./")+"/nomatch_*.go")
			}
			p.Config.Globs = gl
			p.SetFeature("globs-matching-nothing")
		case 0: // unmatched file inside a matched package: globs name the generated files explicitly
			var globs []string
			for _, ctl := range p.Controllers {
				for _, f := range ctl.Files {
					globs = append(globs, "./"+p.Pkg(ctl.Pkg).Dir+"/"+f)
				}
			}
			sort.Strings(globs)
			p.Config.Globs = globs
			p.ExtraFiles["ctl/zz_decoy.go"] = decoyController("ctl", "DecoyInPkg")
			cs.Decoys = append(cs.Decoys, "DecoyInPkg")
		case 1: // a whole package that no glob matches
			p.ExtraFiles["unglobbed/decoy.go"] = decoyController("unglobbed", "DecoyOtherPkg")
			cs.Decoys = append(cs.Decoys, "DecoyOtherPkg")
		case 2: // overlapping globs + a decoy in a package the controllers import for their types
			p.Config.Globs = append(p.Config.Globs, p.Config.Globs[0], "./ctl/**/*.go")
			if p.Pkg("models") != nil {
				p.ExtraFiles["models/zz_decoy.go"] = decoyController("models", "DecoyInModels")
				cs.Decoys = append(cs.Decoys, "DecoyInModels")
			}
		}
		if twin && len(p.Controllers) > 0 && len(p.Controllers[0].Files) > 0 {
			// a further controller in a directory of its own, in a file named like the first controller's file
			p.ExtraFiles["twin/"+p.Controllers[0].Files[0]] = decoyController("twin", "TwinDirCtl")
			p.Config.Globs = append(p.Config.Globs, "./twin/*.go")
			cs.Twins = append(cs.Twins, "TwinDirCtl")
			p.SetFeature("same-file-name-in-several-directories")
		}
		cases = append(cases, cs)
	}

	type outcome struct {
		cs      *c20Case
		cr      lab.CLIResult
		dir     string
		created []string
		cfgText string
	}
	outs := make([]*outcome, len(cases))
	var mu sync.Mutex
	orch.ParallelMap(len(cases), c.Parallel, func(i int) {
		cs := cases[i]
		p := cs.Project
		if cs.Kind == "corrupt" {
			if p.ExtraFiles == nil {
				p.ExtraFiles = map[string]string{}
			}
			p.ExtraFiles["ctl/zz_broken.go"] = brokenGo
		}
		rd := p.Render(synth.RenderOpts{})
		cfgText := p.Config.JSONWith(mutate[cs])
		if cs.JSON5 {
			cfgText = json5ify(cfgText)
		}
		rd.Files["gleece.config.json"] = cfgText
		dir, err := l.Write(p, rd)
		if err != nil {
			panic(err)
		}
		before := lab.Snapshot(dir)
		// umask 0 so that the configured permission bits are observable
		script := fmt.Sprintf("umask 0; exec %q generate spec-and-routes -c gleece.config.json --no-banner", bin)
		cr := l.Gleece("/bin/sh", dir, p.Name, 240, nil, "-c", script)
		after := lab.Snapshot(dir)
		crd, mod := lab.Diff(before, after)
		mu.Lock()
		outs[i] = &outcome{cs: cs, cr: cr, dir: dir, created: append(crd, mod...), cfgText: cfgText}
		mu.Unlock()
	})

	dist := report.NewDistincter()
	corruptOutcomes := map[string]map[string]int{}
	honoured := 0
	for _, o := range outs {
		cs, p := o.cs, o.cs.Project
		res.Evaluations++
		out := lab.StripAnsi(o.cr.Stderr + o.cr.Stdout)
		if cs.Kind == "corrupt" {
			var cc cfgCorruption
			for _, x := range cfgCatalogue {
				if x.ID == cs.Corruption {
					cc = x
				}
			}
			where := map[string]string{"corruption": cc.ID}
			label := fmt.Sprintf("[%s corruption=%q engine=%s json5=%v]", p.Name, cc.ID, p.Config.Engine, cs.JSON5)
			oc := "rejected-up-front"
			named := false
			low := strings.ToLower(out)
			for _, n := range cc.Names {
				if strings.Contains(low, strings.ToLower(n)) {
					named = true
				}
			}
			analysed := strings.Contains(out, "failed to parse file") || strings.Contains(out, "zz_broken.go")
			switch {
			case o.cr.Exit == 0:
				oc = "ACCEPTED"
				if cc.Judged {
					res.AddViolation("invalid-config-accepted", where, fmt.Sprintf("%s the command exited 0; files: %v", label, o.created), map[string]any{"case": cs, "config": o.cfgText})
				}
			case analysed:
				oc = "REJECTED-AFTER-ANALYSIS"
				if cc.Judged {
					res.AddViolation("config-checked-after-analysis", where, fmt.Sprintf("%s the error is about source analysis, i.e. the sources were read before the configuration was validated: %s", label, lab.Tail(out, 300)), map[string]any{"case": cs, "config": o.cfgText})
				}
			case !named:
				oc = "rejected-field-not-named"
				if cc.Judged && !cc.NoName {
					res.AddViolation("config-error-does-not-name-field", where, fmt.Sprintf("%s the message mentions none of %v: %s", label, cc.Names, lab.Tail(out, 300)), map[string]any{"case": cs, "config": o.cfgText})
				}
			}
			if o.cr.Exit != 0 && len(o.created) > 0 && cc.Judged {
				res.AddViolation("files-written-despite-invalid-config", where, fmt.Sprintf("%s created/modified %v", label, o.created), map[string]any{"case": cs, "config": o.cfgText})
			}
			if corruptOutcomes[cc.ID] == nil {
				corruptOutcomes[cc.ID] = map[string]int{}
			}
			corruptOutcomes[cc.ID][oc]++
			dist.Add("corrupt", cc.ID, oc, cs.JSON5)
			if len(res.Samples) < 2 && oc == "rejected-up-front" {
				res.Samples = append(res.Samples, map[string]any{"corruption": cc.ID, "exit": o.cr.Exit, "message": lastLine(out)})
			}
			continue
		}
		// honoured half
		label := fmt.Sprintf("[%s engine=%s openapi=%s perms=%q package=%q routes=%s spec=%s globs=%v]", p.Name, p.Config.Engine, p.Config.OpenAPI, p.Config.Perms, p.Config.PackageName, p.Config.RoutesOut, p.Config.SpecOut, p.Config.Globs)
		csj := map[string]any{"case": cs, "config": o.cfgText}
		if o.cr.Exit != 0 {
			res.Inc("valid configuration but project rejected: " + firstLine(rejectionReason(o.cr)))
			continue
		}
		honoured++
		dist.Add("honour", p.Config.Engine, p.Config.OpenAPI, p.Config.Perms, p.Config.PackageName != "", len(cs.Decoys), cs.JSON5)
		routesPath := filepath.Join(o.dir, p.Config.RoutesOut)
		specPath := filepath.Join(o.dir, p.Config.SpecOut)
		st, err := os.Stat(routesPath)
		if err != nil {
			res.AddViolation("routes-not-at-configured-path", nil, fmt.Sprintf("%s no file at %s; created: %v", label, p.Config.RoutesOut, o.created), csj)
			continue
		}
		wantMode := os.FileMode(0o644)
		if p.Config.Perms != "" {
			var m uint32
			fmt.Sscanf(p.Config.Perms, "%o", &m)
			wantMode = os.FileMode(m)
		}
		if st.Mode().Perm() != wantMode {
			res.AddViolation("routes-file-mode", map[string]string{"perms": p.Config.Perms}, fmt.Sprintf("%s routes file has mode %o, configured %o", label, st.Mode().Perm(), wantMode), csj)
		}
		src, _ := os.ReadFile(routesPath)
		fset := token.NewFileSet()
		f, perr := parser.ParseFile(fset, routesPath, src, parser.ImportsOnly)
		if perr != nil {
			res.Inc("routes file does not parse (C09's subject)")
		} else {
			wantPkg := "routes"
			if p.Config.PackageName != "" {
				wantPkg = p.Config.PackageName
			}
			if f.Name.Name != wantPkg {
				res.AddViolation("routes-package-clause", nil, fmt.Sprintf("%s package clause %q, configured %q", label, f.Name.Name, wantPkg), csj)
			}
			engineImport := map[string]string{"gin": "github.com/gin-gonic/gin", "echo": "github.com/labstack/echo/v4", "mux": "github.com/gorilla/mux", "chi": "github.com/go-chi/chi/v5", "fiber": "github.com/gofiber/fiber/v2"}[p.Config.Engine]
			foundEngine, foundAuth := false, false
			for _, im := range f.Imports {
				v := strings.Trim(im.Path.Value, "\"")
				if v == engineImport {
					foundEngine = true
				}
				if v == p.Config.AuthPkg {
					foundAuth = true
				}
			}
			if !foundEngine {
				res.AddViolation("routes-engine", nil, fmt.Sprintf("%s routes file does not import %s", label, engineImport), csj)
			}
			if !foundAuth {
				res.AddViolation("routes-auth-package", nil, fmt.Sprintf("%s routes file does not import the configured authorization package %s", label, p.Config.AuthPkg), csj)
			}
		}
		doc, derr := oapi.Load(specPath)
		if derr != nil {
			res.AddViolation("spec-not-at-configured-path", nil, fmt.Sprintf("%s %v; created: %v", label, derr, o.created), csj)
			continue
		}
		for _, pb := range configProblems(doc, p.Config, p.Config.OpenAPI) {
			res.AddViolation("spec-"+pb.Kind, nil, fmt.Sprintf("%s %s", label, pb.Detail), csj)
		}
		// unexpected extra outputs
		for _, fcr := range o.created {
			clean := func(s string) string { return filepath.Clean(s) }
			if clean(fcr) != clean(p.Config.RoutesOut) && clean(fcr) != clean(p.Config.SpecOut) {
				res.AddViolation("unexpected-file-written", nil, fmt.Sprintf("%s the run also created/modified %s", label, fcr), csj)
			}
		}
		// every glob-matched controller contributes: its name in the routes file, its documented methods in the spec
		opIds := map[string]bool{}
		for _, op := range doc.Operations() {
			opIds[oapi.Str(op.Raw["operationId"])] = true
		}
		for ci := range p.Controllers {
			cc := &p.Controllers[ci]
			if cc.Decoy {
				continue
			}
			served := false
			for mi := range cc.Methods {
				m := &cc.Methods[mi]
				if !m.IsEndpoint() {
					continue
				}
				served = true
				if !m.Hidden && !opIds[m.Name] {
					res.AddViolation("globbed-controller-missing-from-spec", map[string]string{"globs_matching_nothing": fmt.Sprint(p.HasFeature("globs-matching-nothing"))}, fmt.Sprintf("%s method %s.%s lives in a glob-matched file but no operation %s is documented", label, cc.Name, m.Name, m.Name), csj)
					break
				}
			}
			if served && !strings.Contains(string(src), cc.Name) {
				res.AddViolation("globbed-controller-missing-from-routes", map[string]string{"globs_matching_nothing": fmt.Sprint(p.HasFeature("globs-matching-nothing"))}, fmt.Sprintf("%s controller %s lives in a glob-matched file but the routes file never mentions it", label, cc.Name), csj)
			}
		}
		// a glob-matched file contributes its controller whatever other matched files are called
		for _, d := range cs.Twins {
			low := strings.ToLower(d)
			found := false
			for _, op := range doc.Operations() {
				if strings.Contains(op.Path, "decoy"+low) {
					found = true
				}
			}
			if !found {
				res.AddViolation("globbed-controller-missing-from-spec", map[string]string{"twin": d}, fmt.Sprintf("%s controller %s lives in a glob-matched file (same base name as another matched file, other directory) but none of its routes is documented", label, d), csj)
			}
			if !strings.Contains(string(src), d) {
				res.AddViolation("globbed-controller-missing-from-routes", map[string]string{"twin": d}, fmt.Sprintf("%s controller %s lives in a glob-matched file (same base name as another matched file, other directory) but the routes file never mentions it", label, d), csj)
			}
		}
		// only glob-matched files contribute controllers
		for _, d := range cs.Decoys {
			low := strings.ToLower(d)
			for _, op := range doc.Operations() {
				if strings.Contains(op.Path, "decoy"+low) || strings.Contains(strings.ToLower(oapi.Str(op.Raw["operationId"])), "ping"+low) {
					res.AddViolation("unglobbed-controller-in-spec", map[string]string{"decoy": d}, fmt.Sprintf("%s controller %s lives in a file no glob matches but its route %s %s is documented", label, d, op.Verb, op.Path), csj)
				}
			}
			if strings.Contains(string(src), d) {
				res.AddViolation("unglobbed-controller-in-routes", map[string]string{"decoy": d}, fmt.Sprintf("%s controller %s lives in a file no glob matches but the routes file mentions it", label, d), csj)
			}
		}
		if len(res.Samples) < 4 {
			res.Samples = append(res.Samples, map[string]any{"honoured": label, "mode": fmt.Sprintf("%o", st.Mode().Perm()), "decoys": cs.Decoys})
		}
	}
	res.Distinct = dist.N()
	res.Rule = fmt.Sprintf("(a) %d rounds x %d single-field corruptions of a valid generated configuration (DESIGN Appendix I, transcribed from the validate tags), each paired with a project that contains a syntactically broken globbed file: the run must exit non-zero, its message must name the field (Go or JSON name) and must not be about source analysis, and the before/after snapshot must show nothing created; (b) %d valid configurations over 5 engines x 2 versions x 12 permission strings (incl. 000) x package names x output paths x glob sets with decoy controllers (unmatched file in a matched package / unmatched package / package imported only for types), one third written as JSON5 with comments, unquoted keys and trailing commas; child runs under umask 0; files are stat'ed, parsed and compared with the configuration. distinct = distinct (corruption, outcome, json5) resp. (engine, version, perms, package?, #decoys, json5)", rounds, len(cfgCatalogue), nHonour)
	res.Extra("corruption_outcomes", corruptOutcomes)
	res.Extra("valid_configurations_honoured", honoured)
	res.Assumptions = []string{"`controllerGlobs: []` and a missing commonConfig are not judged (omitempty / default globs make them legal in effect)", "an accepted message may name the Go field or the JSON key"}
	if honoured < nHonour/3 {
		res.Fatal = fmt.Sprintf("only %d of %d valid configurations led to an accepted run", honoured, nHonour)
	}
	_ = json.Marshal
	return res, nil
}

func init() { Registry["C20"] = c20 }
