package props

import (
	"fmt"
	"go/ast"
	"go/parser"
	"go/token"
	"os"
	"path/filepath"
	"strconv"
	"strings"

	"verif/harness/oapi"
	"verif/harness/orch"
	"verif/harness/report"
	"verif/harness/rng"
	"verif/harness/synth"
)

func secString(alts []synth.Security) string {
	var parts []string
	for _, a := range alts {
		parts = append(parts, a.Scheme+"["+strings.Join(a.Scopes, ",")+"]")
	}
	return strings.Join(parts, " | ")
}

func docSecString(op map[string]any) string {
	var parts []string
	for _, sr := range oapi.Arr(op["security"]) {
		m := oapi.Obj(sr)
		var one []string
		for _, name := range keysOf(m) {
			var sc []string
			for _, x := range oapi.Arr(m[name]) {
				sc = append(sc, oapi.Str(x))
			}
			one = append(one, name+"["+strings.Join(sc, ",")+"]")
		}
		parts = append(parts, strings.Join(one, " & "))
	}
	return strings.Join(parts, " | ")
}

// enforcedFromRoutesFile parses the SecurityCheckList literals of a generated gin routes file:
// map "VERB path-literal" -> "scheme[scopes] | ...".
func enforcedFromRoutesFile(path string) (map[string]string, error) {
	src, err := os.ReadFile(path)
	if err != nil {
		return nil, err
	}
	fset := token.NewFileSet()
	f, err := parser.ParseFile(fset, path, src, 0)
	if err != nil {
		return nil, err
	}
	out := map[string]string{}
	strLit := func(e ast.Expr) string {
		if bl, ok := e.(*ast.BasicLit); ok && bl.Kind == token.STRING {
			s, _ := strconv.Unquote(bl.Value)
			return s
		}
		return ""
	}
	ast.Inspect(f, func(n ast.Node) bool {
		call, ok := n.(*ast.CallExpr)
		if !ok || len(call.Args) != 2 {
			return true
		}
		sel, ok := call.Fun.(*ast.SelectorExpr)
		if !ok {
			return true
		}
		recv, ok := sel.X.(*ast.Ident)
		if !ok || recv.Name != "engine" {
			return true
		}
		urlCall, ok := call.Args[0].(*ast.CallExpr)
		fn, ok2 := call.Args[1].(*ast.FuncLit)
		if !ok || !ok2 || len(urlCall.Args) != 1 {
			return true
		}
		key := sel.Sel.Name + " " + strLit(urlCall.Args[0])
		var alts []string
		found := false
		ast.Inspect(fn.Body, func(m ast.Node) bool {
			ac, ok := m.(*ast.CallExpr)
			if !ok {
				return true
			}
			id, ok := ac.Fun.(*ast.Ident)
			if !ok || id.Name != "authorize" || len(ac.Args) != 2 {
				return true
			}
			found = true
			lists, ok := ac.Args[1].(*ast.CompositeLit)
			if !ok {
				return false
			}
			for _, le := range lists.Elts {
				lc, ok := le.(*ast.CompositeLit)
				if !ok {
					continue
				}
				var checks []string
				for _, kv := range lc.Elts {
					kve, ok := kv.(*ast.KeyValueExpr)
					if !ok || fmt.Sprint(kve.Key) != "Checks" {
						continue
					}
					cl, ok := kve.Value.(*ast.CompositeLit)
					if !ok {
						continue
					}
					for _, ce := range cl.Elts {
						cc, ok := ce.(*ast.CompositeLit)
						if !ok {
							continue
						}
						name, scopes := "", []string{}
						for _, f := range cc.Elts {
							fkv, ok := f.(*ast.KeyValueExpr)
							if !ok {
								continue
							}
							switch fmt.Sprint(fkv.Key) {
							case "SchemaName":
								name = strLit(fkv.Value)
							case "Scopes":
								if sl, ok := fkv.Value.(*ast.CompositeLit); ok {
									for _, se := range sl.Elts {
										scopes = append(scopes, strLit(se))
									}
								}
							}
						}
						checks = append(checks, name+"["+strings.Join(scopes, ",")+"]")
					}
				}
				alts = append(alts, strings.Join(checks, " & "))
			}
			return false
		})
		if found {
			out[key] = strings.Join(alts, " | ")
		} else {
			out[key] = "<no authorize call>"
		}
		return true
	})
	return out, nil
}

// c04Perturb plants an undeclared scheme at one of the three levels.
func c04Perturb(p *synth.Project, r interface{ Intn(int) int }) string {
	// the undeclared name is a look-alike of a declared one three times out of four (other letter
	// case, a prefix, an extension): only exact names are declared
	ghost := "ghostScheme"
	if len(p.Config.Schemes) > 0 {
		d := p.Config.Schemes[r.Intn(len(p.Config.Schemes))].Name
		cands := []string{"ghostScheme", strings.ToUpper(d), strings.ToUpper(d[:1]) + d[1:], strings.ToLower(d), d[:len(d)-1], d + "2"}
		declared := map[string]bool{}
		for _, sc := range p.Config.Schemes {
			declared[sc.Name] = true
		}
		if g := cands[r.Intn(len(cands))]; !declared[g] && g != "" {
			ghost = g
		}
	}
	switch r.Intn(4) {
	case 3:
		for ci := range p.Controllers {
			for mi := range p.Controllers[ci].Methods {
				m := &p.Controllers[ci].Methods[mi]
				if m.IsEndpoint() && m.Hidden {
					m.Security = append(m.Security, synth.Security{Scheme: ghost, Scopes: []string{"a"}})
					return "undeclared-at-hidden-method"
				}
			}
		}
	case 0:
		for ci := range p.Controllers {
			for mi := range p.Controllers[ci].Methods {
				m := &p.Controllers[ci].Methods[mi]
				if m.IsEndpoint() && !m.Hidden {
					m.Security = append(m.Security, synth.Security{Scheme: ghost, Scopes: []string{"a"}})
					return "undeclared-at-method"
				}
			}
		}
	case 1:
		for ci := range p.Controllers {
			c := &p.Controllers[ci]
			hasInheriting := false
			for _, m := range c.Methods {
				if m.IsEndpoint() && !m.Hidden && len(m.Security) == 0 {
					hasInheriting = true
				}
			}
			if hasInheriting {
				c.Security = append(c.Security, synth.Security{Scheme: ghost, Scopes: []string{}})
				return "undeclared-at-controller"
			}
		}
	case 2:
		for ci := range p.Controllers {
			c := &p.Controllers[ci]
			for _, m := range c.Methods {
				if m.IsEndpoint() && !m.Hidden && len(m.Security) == 0 && len(c.Security) == 0 {
					p.Config.DefaultSecurity = &synth.Security{Scheme: ghost, Scopes: []string{}}
					return "undeclared-default"
				}
			}
		}
	}
	return ""
}

// c04EnforcePlant turns the enforce flag on, pushes all security down to method level and then leaves
// exactly one route without any (a hidden one, a documented one) or none: the only unsecured route
// decides whether the project may be accepted.
func c04EnforcePlant(p *synth.Project, r interface{ Intn(int) int }) string {
	if len(p.Config.Schemes) == 0 {
		return "enforce-plant-not-applicable"
	}
	p.Config.Enforce = true
	p.Config.DefaultSecurity = nil
	type site struct{ ci, mi int }
	var hidden, shown []site
	for ci := range p.Controllers {
		c := &p.Controllers[ci]
		for mi := range c.Methods {
			m := &c.Methods[mi]
			if !m.IsEndpoint() {
				continue
			}
			if len(m.Security) == 0 {
				if len(c.Security) > 0 {
					m.Security = append([]synth.Security{}, c.Security...)
				} else {
					m.Security = []synth.Security{{Scheme: p.Config.Schemes[r.Intn(len(p.Config.Schemes))].Name, Scopes: []string{"read"}}}
				}
			}
			if m.Hidden {
				hidden = append(hidden, site{ci, mi})
			} else {
				shown = append(shown, site{ci, mi})
			}
		}
		c.Security = nil
	}
	strip := func(s site) {
		p.Controllers[s.ci].Methods[s.mi].Security = nil
		if r.Intn(2) == 0 {
			// an unrelated warning on the same controller: a secured twin whose route overlaps the stripped one
			// (same verb, same shape, other parameter names) - the conflict warning must not displace the error
			src := p.Controllers[s.ci].Methods[s.mi]
			twin := src
			twin.Name = src.Name + "Twin"
			twin.Hidden, twin.HiddenArg = false, ""
			twin.Security = []synth.Security{{Scheme: p.Config.Schemes[0].Name, Scopes: []string{"read"}}}
			twin.Params = append([]synth.Param{}, src.Params...)
			for i := range twin.Params {
				if twin.Params[i].In == "path" && twin.Params[i].GoName != "tenant" {
					old := twin.Params[i].WireName()
					twin.Params[i].GoName += "Tw"
					twin.Params[i].Wire = ""
					twin.Route = strings.Replace(twin.Route, "{"+old+"}", "{"+twin.Params[i].GoName+"}", 1)
				}
			}
			p.Controllers[s.ci].Methods = append(p.Controllers[s.ci].Methods, twin)
			p.SetFeature("route-conflict-next-to-unsecured-route")
		}
	}
	switch k := r.Intn(5); {
	case k < 2 && len(hidden) > 0:
		strip(hidden[r.Intn(len(hidden))])
		p.SetFeature("enforce-only-hidden-route-unsecured")
		return "enforce: only a hidden route is unsecured"
	case k < 2 && len(shown) > 0:
		// no hidden route: hide one and strip it
		s := shown[r.Intn(len(shown))]
		p.Controllers[s.ci].Methods[s.mi].Hidden = true
		strip(s)
		p.SetFeature("enforce-only-hidden-route-unsecured")
		return "enforce: only a hidden route is unsecured"
	case k < 4 && len(shown) > 0:
		strip(shown[r.Intn(len(shown))])
		return "enforce: only one documented route is unsecured"
	}
	return "enforce: every route secured at method level"
}

// undeclaredUse reports where the project names a scheme that is not configured ("" if nowhere).
func undeclaredUse(p *synth.Project) string {
	declared := map[string]bool{}
	for _, s := range p.Config.Schemes {
		declared[s.Name] = true
	}
	for ci := range p.Controllers {
		c := &p.Controllers[ci]
		if c.Decoy {
			continue
		}
		for mi := range c.Methods {
			m := &c.Methods[mi]
			if !m.IsEndpoint() {
				continue
			}
			for _, s := range p.EffectiveSecurity(c, m) {
				if !declared[s.Scheme] {
					switch {
					case len(m.Security) > 0 && m.Hidden:
						return "undeclared-at-hidden-method"
					case len(m.Security) > 0:
						return "undeclared-at-method"
					case len(c.Security) > 0:
						return "undeclared-at-controller"
					}
					return "undeclared-default"
				}
			}
		}
	}
	return ""
}

func allRoutesSecured(p *synth.Project) bool {
	for ci := range p.Controllers {
		c := &p.Controllers[ci]
		if c.Decoy {
			continue
		}
		for mi := range c.Methods {
			m := &c.Methods[mi]
			if m.IsEndpoint() && len(p.EffectiveSecurity(c, m)) == 0 {
				return false
			}
		}
	}
	return true
}

func c04(c *orch.Ctx) (*report.Result, error) {
	planted := map[string]int{}
	undeclared := map[string]string{}
	routesCompared, routeFiles := 0, 0
	enforceOutcomes := map[string]int{}
	return runSpecProp(c, specProp{
		id: "C04", nQuick: 72, nThorough: 700, floor: 0.25, cmd: "spec-and-routes",
		gen: func(cx *orch.Ctx, i int) *synth.Project {
			p := genFromProfile("C04", "security", nil)(cx, i)
			if i%4 == 3 {
				if k := c04Perturb(p, rng.New(cx.Seed, "C04-perturb", fmt.Sprint(i))); k != "" {
					planted[k]++
					undeclared[p.Name] = k
					p.SetFeature("undeclared-scheme")
					p.Config.Enforce = false
				}
			}
			if i%4 == 1 {
				k := c04EnforcePlant(p, rng.New(cx.Seed, "C04-enforce", fmt.Sprint(i)))
				planted[k]++
			}
			return p
		},
		rule:   "every 4th project is normalised to enforceSecurityOnAllRoutes=true with security only at method level and then exactly one route (hidden or not) is stripped of it, or none; projects drawn from the 'security' profile: all presence combinations of method-level / controller-level / configured default security, 1-3 alternatives each, 0-3 scopes, repeated schemes, hidden routes, enforceSecurityOnAllRoutes on in ~40%; every 4th project names an undeclared scheme at method, controller or default level. Per route a three-way comparison: effective alternatives from the descriptor (DESIGN A.2) vs paths.*.*.security in the 3.0.0 and 3.1.0 documents vs the SecurityCheckList literal parsed (go/parser) from the generated gin routes file; components.securitySchemes vs the configuration; exit status and written files vs the enforce flag and the undeclared-scheme plants. distinct = distinct (controller-level, method-level, default) security shape triples per route",
		assume: []string{"the enforced list is read statically from the generated routes file here; its dynamic enforcement is C03's monitor", "an undeclared scheme must yield no spec file; whether the routes file is still written in that case is not judged here"},
		checkAny: func(res *report.Result, sr *SpecRun, dist *report.Distincter) {
			p := sr.P
			plant := undeclaredUse(p)
			for _, v := range specVersions {
				vr := sr.Ver[v]
				if vr == nil {
					continue
				}
				res.Evaluations++
				if plant != "" {
					if vr.SpecRaw != nil {
						res.AddViolation("spec-written-despite-undeclared-scheme", map[string]string{"plant": plant, "version": v}, fmt.Sprintf("[%s %s] a route names an undeclared scheme (%s) but a spec file exists (exit %d)", p.Name, v, plant, vr.CLI.Exit), caseOf(p, map[string]any{"version": v}))
					}
					if vr.Accepted {
						res.AddViolation("accepted-despite-undeclared-scheme", map[string]string{"plant": plant, "version": v}, fmt.Sprintf("[%s %s] a route names an undeclared scheme (%s) but the command exited 0", p.Name, v, plant), caseOf(p, map[string]any{"version": v}))
					}
					dist.Add("plant", plant, v)
					continue
				}
				if p.Config.Enforce {
					want := allRoutesSecured(p)
					enforceOutcomes[fmt.Sprintf("enforce=true allSecured=%v accepted=%v", want, vr.Accepted)]++
					dist.Add("enforce", want, v)
					if want != vr.Accepted {
						// only the security diagnostic decides here: look at the message
						msg := vr.CLI.Stderr + vr.CLI.Stdout
						if !want && vr.Accepted {
							res.AddViolation("enforce-flag-leaks", nil, fmt.Sprintf("[%s %s] enforceSecurityOnAllRoutes=true, some route has no effective security, yet the command exited 0", p.Name, v), caseOf(p, map[string]any{"version": v}))
						} else if strings.Contains(msg, "receiver-missing-security") {
							res.AddViolation("enforce-flag-false-rejection", nil, fmt.Sprintf("[%s %s] every route has effective security but the project was rejected for missing security", p.Name, v), caseOf(p, map[string]any{"version": v}))
						}
					}
				}
			}
		},
		check: func(res *report.Result, sr *SpecRun, dist *report.Distincter) {
			p := sr.P
			for _, v := range specVersions {
				vr := sr.Ver[v]
				ops := map[string]oapi.Op{}
				for _, op := range vr.Doc.Operations() {
					ops[op.Key()] = op
				}
				tag := strings.ReplaceAll(v, ".", "")
				enforced, rerr := enforcedFromRoutesFile(filepath.Join(sr.Dir, "dist", "routes"+tag, "gleece.routes.go"))
				if rerr != nil {
					res.Inc("routes file not parsable (C09's subject): " + firstLine(rerr.Error()))
				} else {
					routeFiles++
				}
				// securitySchemes vs configuration is part of C04's statement
				for _, pb := range configProblems(vr.Doc, p.Config, v) {
					if pb.Kind == "config-security-schemes" || pb.Kind == "config-security-flows" {
						res.AddViolation("security-schemes-not-as-configured", map[string]string{"version": v}, fmt.Sprintf("[%s %s] %s", p.Name, v, pb.Detail), caseOf(p, map[string]any{"version": v}))
					}
				}
				for ci := range p.Controllers {
					cc := &p.Controllers[ci]
					for mi := range cc.Methods {
						m := &cc.Methods[mi]
						if !m.IsEndpoint() {
							continue
						}
						eff := p.EffectiveSecurity(cc, m)
						want := secString(eff)
						dist.Add(len(cc.Security), len(m.Security), p.Config.DefaultSecurity != nil, len(eff), m.Hidden)
						key := strings.ToLower(m.Verb) + " " + synth.FullRoute(cc, m)
						if !m.Hidden {
							if op, ok := ops[key]; ok {
								res.Evaluations++
								routesCompared++
								if got := docSecString(op.Raw); got != want {
									res.AddViolation("documented-security-mismatch", map[string]string{"version": v}, fmt.Sprintf("[%s %s] %s.%s documents security {%s}, effective security is {%s}", p.Name, v, cc.Name, m.Name, got, want), caseOf(p, map[string]any{"version": v, "method": m.Name}))
								}
								for _, a := range eff {
									if _, ok := vr.Doc.SecuritySchemes()[a.Scheme]; !ok {
										res.AddViolation("scheme-not-declared-in-components", map[string]string{"version": v}, fmt.Sprintf("[%s %s] %s.%s uses scheme %s which is missing from components.securitySchemes", p.Name, v, cc.Name, m.Name, a.Scheme), caseOf(p, map[string]any{"version": v}))
									}
								}
							}
						}
						if enforced != nil {
							rk := m.Verb + " " + cc.Route + m.Route
							got, ok := enforced[rk]
							if !ok {
								res.Inc("handler not found in routes file by literal (C02's subject)")
								continue
							}
							res.Evaluations++
							if got != want {
								res.AddViolation("enforced-security-mismatch", map[string]string{"version": v}, fmt.Sprintf("[%s %s] handler of %s.%s enforces {%s}, effective security is {%s}", p.Name, v, cc.Name, m.Name, got, want), caseOf(p, map[string]any{"version": v, "method": m.Name}))
							}
						}
					}
				}
			}
			if len(res.Samples) < 3 {
				var rows []string
				for ci := range p.Controllers {
					cc := &p.Controllers[ci]
					for mi := range cc.Methods {
						m := &cc.Methods[mi]
						if m.IsEndpoint() {
							rows = append(rows, fmt.Sprintf("%s.%s ctl={%s} method={%s} default=%v => effective {%s}", cc.Name, m.Name, secString(cc.Security), secString(m.Security), p.Config.DefaultSecurity, secString(p.EffectiveSecurity(cc, m))))
						}
					}
				}
				res.Samples = append(res.Samples, map[string]any{"project": p.Name, "enforce": p.Config.Enforce, "routes": rows})
			}
		},
		finish: func(res *report.Result, runs []*SpecRun) {
			res.Extra("undeclared_scheme_plants", planted)
			res.Extra("routes_compared_with_spec", routesCompared)
			res.Extra("routes_files_parsed", routeFiles)
			res.Extra("enforce_flag_outcomes", enforceOutcomes)
		},
	})
}

func firstLine(s string) string {
	if i := strings.Index(s, "\n"); i >= 0 {
		s = s[:i]
	}
	if len(s) > 120 {
		s = s[:120]
	}
	return s
}

func init() { Registry["C04"] = c04 }
