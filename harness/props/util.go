package props

import (
	"encoding/json"
	"fmt"
	"os"
)

// loadCase reads the "case" member of a replay file.
func loadCase(path string, v any) error {
	b, err := os.ReadFile(path)
	if err != nil {
		return err
	}
	var w struct {
		Case json.RawMessage `json:"case"`
	}
	if err := json.Unmarshal(b, &w); err != nil || w.Case == nil {
		return fmt.Errorf("replay file %s has no case: %v", path, err)
	}
	return json.Unmarshal(w.Case, v)
}
