package props

import (
	"encoding/json"
	"fmt"
	"os"
	"path/filepath"
	"strings"
	"sync"

	"verif/harness/lab"
	"verif/harness/monitors/pipe"
	"verif/harness/orch"
	"verif/harness/rng"
	"verif/harness/synth"
)

type PertCase struct {
	P        *synth.Project
	Pt       *Perturbation
	Dir      string
	Rendered *synth.Rendered
	Val      *pipe.ValidateOut
	ValErr   string
	CLI      lab.CLIResult
	Created  []string // files created or modified by the CLI run
	Noise    int
}

// pertProfile: well-formed bases that use only features C10's statement lists.
var pertProfile = synth.Profile{Name: "pertbase", MaxControllers: 3, MaxMethods: 4, MultiPkg: true, MultiFile: true, Hidden: true, Deprecated: true,
	ParamIn: []string{"path", "query", "header", "form", "body"}, ParamTypeLevel: 2, Validators: false, Models: 1, CustomErrors: true, Responses: true,
	RouteStyle: "clean", CtlRouteParams: true, Descriptions: true, WireNames: true, CtxParams: true}

func genPertCase(c *orch.Ctx, prop string, i int, ids []string) (*synth.Project, *Perturbation, int) {
	r := rng.New(c.Seed, prop, "pert", fmt.Sprint(i))
	p := synth.Gen(r, pertProfile, fmt.Sprintf("p%04d", i), lab.ModPath)
	id := ids[i%len(ids)]
	pt := ApplyPerturbation(p, id, r)
	if r.Intn(3) == 0 && pt.Applied {
		addOverlappingTwin(p)
	}
	noise := 0
	if r.Intn(2) == 0 {
		noise = 1 + r.Intn(9)
	}
	return p, pt, noise
}

// RunPertLab renders, validates in-process (child process per project) and runs the CLI.
func RunPertLab(c *orch.Ctx, prop string, n int, ids []string, withCLI bool) ([]*PertCase, error) {
	l, err := lab.New(c)
	if err != nil {
		return nil, err
	}
	inproc, err := c.Inproc()
	if err != nil {
		return nil, err
	}
	bin := ""
	if withCLI {
		if bin, err = c.CLI(); err != nil {
			return nil, err
		}
	}
	var cases []*PertCase
	if c.Replay != "" {
		var rc struct {
			Project      *synth.Project `json:"project"`
			Perturbation *Perturbation  `json:"perturbation"`
			Noise        int            `json:"noise"`
		}
		if err := loadCase(c.Replay, &rc); err != nil {
			return nil, err
		}
		cases = []*PertCase{{P: rc.Project, Pt: rc.Perturbation, Noise: rc.Noise}}
	} else {
		for i := 0; i < n; i++ {
			p, pt, noise := genPertCase(c, prop, i, ids)
			cases = append(cases, &PertCase{P: p, Pt: pt, Noise: noise})
		}
	}
	var mu sync.Mutex
	orch.ParallelMap(len(cases), c.Parallel, func(i int) {
		pc := cases[i]
		pc.Rendered = pc.P.Render(synth.RenderOpts{LeadingNoise: pc.Noise})
		dir, err := l.Write(pc.P, pc.Rendered)
		if err != nil {
			panic(err)
		}
		pc.Dir = dir
		out := filepath.Join(c.Work, "val-"+pc.P.Name+".json")
		pr := orch.Run(dir, c.GoEnv, 180, filepath.Join(c.Work, "logs-val-"+pc.P.Name), inproc, "validate", "-dir", dir, "-config", "gleece.config.json", "-out", out)
		if b, err := os.ReadFile(out); err == nil {
			var vo pipe.ValidateOut
			if json.Unmarshal(b, &vo) == nil {
				pc.Val = &vo
			}
		}
		if pc.Val == nil {
			t := pr.Stderr
			if len(t) > 1500 {
				t = t[len(t)-1500:]
			}
			pc.ValErr = fmt.Sprintf("in-process validate exited %d: %s", pr.Exit, t)
		}
		if withCLI {
			before := lab.Snapshot(dir)
			pc.CLI = l.Gleece(bin, dir, pc.P.Name, 180, nil, "generate", "spec-and-routes", "-c", "gleece.config.json", "--no-banner")
			after := lab.Snapshot(dir)
			cr, md := lab.Diff(before, after)
			pc.Created = append(cr, md...)
		}
		mu.Lock()
		mu.Unlock()
	})
	return cases, nil
}

func (pc *PertCase) caseJSON() map[string]any {
	return map[string]any{"project": pc.P, "perturbation": pc.Pt, "noise": pc.Noise}
}

func hasErrorDiag(v *pipe.ValidateOut) bool {
	for _, d := range v.Diags {
		if d.Severity == 1 {
			return true
		}
	}
	return false
}

func diagSummary(v *pipe.ValidateOut) string {
	var parts []string
	for _, d := range v.Diags {
		parts = append(parts, fmt.Sprintf("%s(sev%d)@%d:%d-%d:%d", d.Code, d.Severity, d.Range[0], d.Range[1], d.Range[2], d.Range[3]))
	}
	return strings.Join(parts, ", ")
}

// addOverlappingTwin gives the Target method a well-formed sibling with the same verb whose route is made of
// parameters only (same number of segments): the pair overlaps, so validation also attaches route-conflict
// warnings to both. A warning-level finding next to the perturbation must never change the verdict on it.
func addOverlappingTwin(p *synth.Project) {
	c := &p.Controllers[0]
	var target *synth.Method
	for mi := range c.Methods {
		if c.Methods[mi].Name == "Target" {
			target = &c.Methods[mi]
		}
		if c.Methods[mi].Name == "TargetTwin" {
			return // P21 brings its own twin
		}
	}
	if target == nil || !target.IsEndpoint() {
		return
	}
	okVerb := false
	for _, v := range []string{"GET", "POST", "PUT", "DELETE", "PATCH"} {
		if target.Verb == v {
			okVerb = true
		}
	}
	if !okVerb {
		return
	}
	n := 0
	for _, seg := range strings.Split(target.Route, "/") {
		if seg != "" {
			n++
		}
	}
	if n == 0 {
		return
	}
	twin := synth.Method{Name: "TargetTwin", Verb: target.Verb, File: target.File}
	for i := 0; i < n; i++ {
		name := fmt.Sprintf("tw%d", i+1)
		twin.Route += "/{" + name + "}"
		twin.Params = append(twin.Params, synth.Param{GoName: name, In: "path", Type: synth.Prim("string")})
	}
	if strings.Contains(c.Route, "{tenant}") {
		twin.Params = append(twin.Params, synth.Param{GoName: "tenant", In: "path", Type: synth.Prim("string")})
	}
	t := synth.Prim("string")
	twin.Ret = &t
	c.Methods = append(c.Methods, twin)
	p.SetFeature("overlapping-twin-next-to-target")
}
