package props

import (
	"fmt"
	"go/format"
	"go/parser"
	"go/token"
	"sort"
	"strings"

	"verif/harness/lab"
	"verif/harness/orch"
	"verif/harness/report"
	"verif/harness/rng"
	"verif/harness/synth"
)

// c09Profile: names and types chosen to stress string concatenation in the templates.
var c09Profile = synth.Profile{Name: "c09", MaxControllers: 3, MaxMethods: 5, MultiPkg: true, MultiFile: true, Hidden: true, ParamIn: allInC09, ParamTypeLevel: 2,
	Validators: true, RuntimeValidators: true, Models: 2, CustomErrors: true, Responses: true, RouteStyle: "clean", CtlRouteParams: true, WireNames: true, CtxParams: true,
	AnyBytesTime: true, NestedSlices: true, Maps: true, Security: true, DefaultSecP: 0.3, HostileNames: true, CompileHostile: true, SameNameTypes: true, LookalikeTypes: true, DashedWireNames: true, LowerVerbs: true, GroupedParams: true, GroupedControllers: true, ControllerFields: true}

var allInC09 = []string{"path", "query", "header", "form", "body"}

// classifyCompileError attests the cause of a compile failure for known-finding signatures.
// templateLocals: identifiers the handler templates themselves declare.
var templateLocals = []string{"w", "r", "req", "ginCtx", "echoCtx", "fiberCtx", "value", "opError", "controller", "statusCode", "conversionErr", "authErr", "err", "validatorErr", "fieldName", "engine", "emptyErr", "stdError", "validationError",
	// packages the generated file imports and predeclared identifiers it uses
	"fmt", "http", "json", "strconv", "strings", "runtime", "context", "io", "reflect", "regexp", "validator", "len", "string", "int", "bool", "error", "make", "append", "nil", "true", "false"}

func lowerCamel(s string) string {
	parts := strings.FieldsFunc(s, func(r rune) bool { return r == '_' || r == '-' })
	for i, p := range parts {
		if p == "" {
			continue
		}
		if i == 0 {
			parts[i] = strings.ToLower(p[:1]) + p[1:]
		} else {
			parts[i] = strings.ToUpper(p[:1]) + p[1:]
		}
	}
	return strings.Join(parts, "")
}

// classifyCompileError attests the cause of a compile failure from the project descriptor and the
// first diagnostics, so that a known finding never hides an unrelated compile error.
func classifyCompileError(p *synth.Project, out string) string {
	head := out
	if len(head) > 1500 {
		head = head[:1500]
	}
	// (1) a user parameter name that collides with a template local or with a sibling parameter
	//     after lower-camel-casing
	for ci := range p.Controllers {
		for mi := range p.Controllers[ci].Methods {
			m := &p.Controllers[ci].Methods[mi]
			seen := map[string]int{}
			for _, pr := range m.Params {
				seen[strings.ToLower(lowerCamel(pr.GoName))]++
			}
			for _, pr := range m.Params {
				lc := lowerCamel(pr.GoName)
				collides := seen[strings.ToLower(lc)] > 1
				for _, tl := range templateLocals {
					if lc == tl {
						collides = true
					}
				}
				if !collides {
					continue
				}
				for _, probe := range []string{lc + "RawPtr", lc + "Raw", lc + "Uint64", lc + "Float64", lc + "Bool", " " + lc + " (variable of type", "use " + lc + " (", lc + "Var",
					": " + lc + " (local variable)", ": " + lc + ".", "invalid operation: cannot call non-function " + lc, "; have " + lc + " (variable", "have " + lc + " ("} {
					if strings.Contains(head, probe) {
						return "parameter-name-collides-with-generated-identifier"
					}
				}
			}
		}
	}
	// (2) composite / std types spliced into an import alias
	importSyntax := strings.Contains(head, "missing import path") || strings.Contains(head, "unexpected keyword map") || strings.Contains(head, "expected name") || strings.Contains(head, "expected ';'")
	if p.Features["map-typed-body-or-result"] && (strings.Contains(head, "map[") || importSyntax) {
		return "map-typed-value-spliced-into-import-alias"
	}
	if p.Features["time-typed-result"] && (strings.Contains(head, "time.Time") || importSyntax) {
		return "time-typed-result-spliced-into-import-alias"
	}
	if p.Features["slice-of-pointers"] && strings.Contains(head, "*") {
		return "slice-of-pointers-value"
	}
	// (3) an unexported type in a route signature: the routes package cannot name it
	for ci := range p.Controllers {
		for mi := range p.Controllers[ci].Methods {
			m := &p.Controllers[ci].Methods[mi]
			if !m.IsEndpoint() {
				continue
			}
			var ts []synth.T
			for _, pr := range m.Params {
				ts = append(ts, pr.Type)
			}
			if m.Ret != nil {
				ts = append(ts, *m.Ret)
			}
			for _, t := range ts {
				b := t.Base()
				if b.K == "named" && b.Name != "" && b.Name[0] >= 'a' && b.Name[0] <= 'z' &&
					(strings.Contains(head, "."+b.Name) || strings.Contains(head, "undefined: Param") || strings.Contains(head, "undefined: Response") || strings.Contains(head, "not exported")) {
					return "unexported-type-in-route-signature"
				}
			}
		}
	}
	return "other"
}

func c09(c *orch.Ctx) (*report.Result, error) {
	res := &report.Result{Property: "C09"}
	bin, err := c.CLI()
	if err != nil {
		return nil, err
	}
	l, err := lab.New(c)
	if err != nil {
		return nil, err
	}
	n := 16
	if !c.Quick() {
		n = 120
	}
	var projects []*synth.Project
	var optsList []RouterOpts
	if c.Replay != "" {
		var rc struct {
			Project *synth.Project `json:"project"`
			Opts    RouterOpts     `json:"opts"`
		}
		if err := loadCase(c.Replay, &rc); err != nil {
			return nil, err
		}
		projects, optsList = []*synth.Project{rc.Project}, []RouterOpts{rc.Opts}
	} else {
		for i := 0; i < n; i++ {
			r := rng.New(c.Seed, "C09", fmt.Sprint(i))
			p := synth.Gen(r, c09Profile, fmt.Sprintf("p%04d", i), lab.ModPath)
			if i%8 == 5 && len(p.Controllers) > 0 && len(p.Controllers[0].Methods) > 0 && p.Controllers[0].Methods[0].IsEndpoint() {
				// a verb in lower case is not a supported spelling: the run has to fail, not to emit engine.get(...)
				p.Controllers[0].Methods[0].Verb = strings.ToLower(p.Controllers[0].Methods[0].Verb)
				p.SetFeature("lower-case-verb")
			}
			projects = append(projects, p)
			optsList = append(optsList, RouterOpts{ValidateResp: i%2 == 1, TopLevelEnum: i%4 >= 2, EnumValid: i%3 == 0})
		}
	}
	rps := make([]*RouterProject, len(projects))
	orch.ParallelMap(len(projects), 4, func(i int) {
		rps[i] = BuildRouterProject(c, l, bin, projects[i], optsList[i])
	})
	dist := report.NewDistincter()
	filesChecked, generated := 0, 0
	causes := map[string]int{}
	for i, rp := range rps {
		p := rp.P
		for _, e := range synth.Engines {
			cr, ok := rp.Gen[e]
			if !ok {
				continue
			}
			cs := map[string]any{"project": p, "opts": optsList[i], "engine": e}
			if cr.Exit != 0 {
				// a rejection is fine, but then no file may be left behind
				if rp.RoutesSrc[e] != nil {
					res.AddViolation("routes-file-written-by-failed-run", map[string]string{"engine": e}, fmt.Sprintf("[%s %s] route generation exited %d yet a routes file exists: %s", p.Name, e, cr.Exit, firstLine(rejectionReason(cr))), cs)
				} else {
					res.Inc("project rejected (vacuous): " + firstLine(rejectionReason(cr)))
				}
				continue
			}
			generated++
			src := rp.RoutesSrc[e]
			if src == nil {
				res.AddViolation("no-routes-file-after-success", map[string]string{"engine": e}, fmt.Sprintf("[%s %s] exit 0 but no file at the configured path", p.Name, e), cs)
				continue
			}
			res.Evaluations++
			filesChecked++
			dist.Add(e, optsList[i], p.FeatureList(), len(p.Structs), len(p.Enums))
			fset := token.NewFileSet()
			f, perr := parser.ParseFile(fset, "gleece.routes.go", src, parser.PackageClauseOnly)
			if perr != nil {
				res.AddViolation("routes-file-not-go", map[string]string{"engine": e}, fmt.Sprintf("[%s %s] generated file does not parse: %v", p.Name, e, perr), cs)
			} else if f.Name.Name != "routes_"+e {
				res.AddViolation("package-clause", map[string]string{"engine": e}, fmt.Sprintf("[%s %s] package clause %q, configured %q", p.Name, e, f.Name.Name, "routes_"+e), cs)
			}
			if be := rp.BuildErr[e]; be != "" {
				cause := classifyCompileError(p, be)
				causes[cause]++
				first := be
				lines := strings.Split(be, "\n")
				if len(lines) > 1 {
					first = lines[1]
					if len(lines) > 2 {
						first += " | " + lines[2]
					}
				}
				res.AddViolation("does-not-compile", map[string]string{"cause": cause, "features": strings.Join(p.FeatureList(), ",")}, fmt.Sprintf("[%s %s opts=%+v] generation exited 0 but `go build` of the generated package fails: %s", p.Name, e, optsList[i], first), cs)
				continue
			}
			if d := rp.GofmtDiff[e]; d != "" {
				cause, detail := classifyFormatting(src)
				causes["gofmt:"+cause]++
				res.AddViolation("not-gofmt-formatted", map[string]string{"cause": cause}, fmt.Sprintf("[%s %s] gofmt -l lists the generated file: %s", p.Name, e, detail), cs)
			}
		}
		if len(res.Samples) < 3 {
			res.Samples = append(res.Samples, map[string]any{"project": p.Name, "features": p.FeatureList(), "opts": optsList[i], "accepted": rp.Accepted, "compiled_and_accepted_engines": rp.Engines})
		}
	}
	res.Distinct = dist.N()
	res.Rule = fmt.Sprintf("%d projects drawn from the 'c09' profile (hostile identifier names: snake_case, digits, names colliding with template locals and Go predeclared identifiers, colliding lower-camel forms; types with equal base names from several packages; map/time/any/[]byte/nested-slice values as parameters, bodies and results; custom error types by value and pointer; security) x 5 engines x flag sets {validateResponsePayload, validateTopLevelOnlyEnum, generateEnumValidator}; every routes file a successful run leaves behind is parsed (package clause), compiled with `go build` against the engine, the user's controller packages and the instrumented authorization package, and listed by gofmt -l. distinct = distinct (engine, flags, feature set, #structs, #enums)", n)
	res.Extra("routes_files_checked", filesChecked)
	res.Extra("successful_generations", generated)
	res.Extra("failure_causes", causes)
	res.Assumptions = []string{"the Go compiler and gofmt are the oracle"}
	if generated == 0 && c.Replay == "" {
		res.Fatal = "no route generation succeeded"
	}
	return res, nil
}

func init() { Registry["C09"] = c09 }

// classifyFormatting attests whether a file differs from its gofmt form ONLY by removed blank lines
// and by alignment blanks inside lines (the two effects of collapsing blank lines after formatting).
// Anything else - wrong indentation, unformatted tokens - is another cause.
func classifyFormatting(src []byte) (cause, detail string) {
	formatted, err := format.Source(src)
	if err != nil {
		return "does-not-parse", err.Error()
	}
	nonBlank := func(b []byte) []string {
		var out []string
		for _, ln := range strings.Split(string(b), "\n") {
			if strings.TrimSpace(ln) != "" {
				out = append(out, ln)
			}
		}
		return out
	}
	// the import block: merging the groups lets gofmt re-sort the merged block - order inside it is
	// therefore also a consequence of the collapse; compare it as a multiset
	splitImports := func(lines []string) (imports, rest []string) {
		in := false
		for _, ln := range lines {
			t := strings.TrimSpace(ln)
			switch {
			case !in && strings.HasPrefix(t, "import ("):
				in = true
				rest = append(rest, ln)
			case in && t == ")":
				in = false
				rest = append(rest, ln)
			case in:
				imports = append(imports, strings.Join(strings.Fields(t), " "))
			default:
				rest = append(rest, ln)
			}
		}
		sort.Strings(imports)
		return
	}
	ai, a := splitImports(nonBlank(src))
	gi, g := splitImports(nonBlank(formatted))
	if strings.Join(ai, "\n") != strings.Join(gi, "\n") {
		return "other", "the import block differs from gofmt output by more than order"
	}
	if len(a) != len(g) {
		return "other", fmt.Sprintf("%d non-blank lines vs %d after gofmt", len(a), len(g))
	}
	squeeze := func(s string) string { return strings.Join(strings.Fields(s), " ") }
	indent := func(s string) string { return s[:len(s)-len(strings.TrimLeft(s, " \t"))] }
	for i := range a {
		if indent(a[i]) != indent(g[i]) {
			return "other", fmt.Sprintf("indentation differs at non-blank line %d: %q vs gofmt %q", i+1, a[i], g[i])
		}
		if squeeze(a[i]) != squeeze(g[i]) {
			return "other", fmt.Sprintf("tokens differ at non-blank line %d: %q vs gofmt %q", i+1, a[i], g[i])
		}
	}
	return "blank-lines-collapsed-after-formatting", "differs from gofmt output only by removed blank lines and in-line alignment"
}
