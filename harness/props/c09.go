package props

import (
	"fmt"
	"go/parser"
	"go/token"
	"strings"

	"verif/harness/lab"
	"verif/harness/orch"
	"verif/harness/report"
	"verif/harness/rng"
	"verif/harness/synth"
)

// c09Profile: names and types chosen to stress string concatenation in the templates.
var c09Profile = synth.Profile{Name: "c09", MaxControllers: 3, MaxMethods: 5, MultiPkg: true, MultiFile: true, Hidden: true, ParamIn: allInC09, ParamTypeLevel: 2,
	Validators: true, RuntimeValidators: true, Models: 2, CustomErrors: true, Responses: true, RouteStyle: "clean", CtlRouteParams: true, WireNames: true, CtxParams: true,
	AnyBytesTime: true, NestedSlices: true, Maps: true, Security: true, DefaultSecP: 0.3, HostileNames: true}

var allInC09 = []string{"path", "query", "header", "form", "body"}

// classifyCompileError attests the cause of a compile failure for known-finding signatures.
func classifyCompileError(out string) string {
	switch {
	case strings.Contains(out, "map[") && (strings.Contains(out, "expected ';'") || strings.Contains(out, "syntax error")):
		return "map-typed-value-in-import-alias"
	case strings.Contains(out, "time.Time") && strings.Contains(out, "syntax error"):
		return "time-typed-value-in-import-alias"
	}
	return "other"
}

func c09(c *orch.Ctx) (*report.Result, error) {
	res := &report.Result{Property: "C09"}
	bin, err := c.CLI()
	if err != nil {
		return nil, err
	}
	l, err := lab.New(c)
	if err != nil {
		return nil, err
	}
	n := 16
	if !c.Quick() {
		n = 120
	}
	var projects []*synth.Project
	var optsList []RouterOpts
	if c.Replay != "" {
		var rc struct {
			Project *synth.Project `json:"project"`
			Opts    RouterOpts     `json:"opts"`
		}
		if err := loadCase(c.Replay, &rc); err != nil {
			return nil, err
		}
		projects, optsList = []*synth.Project{rc.Project}, []RouterOpts{rc.Opts}
	} else {
		for i := 0; i < n; i++ {
			r := rng.New(c.Seed, "C09", fmt.Sprint(i))
			p := synth.Gen(r, c09Profile, fmt.Sprintf("p%04d", i), lab.ModPath)
			projects = append(projects, p)
			optsList = append(optsList, RouterOpts{ValidateResp: i%2 == 1, TopLevelEnum: i%4 >= 2, EnumValid: i%3 == 0})
		}
	}
	rps := make([]*RouterProject, len(projects))
	orch.ParallelMap(len(projects), 4, func(i int) {
		rps[i] = BuildRouterProject(c, l, bin, projects[i], optsList[i])
	})
	dist := report.NewDistincter()
	filesChecked, generated := 0, 0
	causes := map[string]int{}
	for i, rp := range rps {
		p := rp.P
		for _, e := range synth.Engines {
			cr, ok := rp.Gen[e]
			if !ok {
				continue
			}
			cs := map[string]any{"project": p, "opts": optsList[i], "engine": e}
			if cr.Exit != 0 {
				// a rejection is fine, but then no file may be left behind
				if rp.RoutesSrc[e] != nil {
					res.AddViolation("routes-file-written-by-failed-run", map[string]string{"engine": e}, fmt.Sprintf("[%s %s] route generation exited %d yet a routes file exists: %s", p.Name, e, cr.Exit, firstLine(rejectionReason(cr))), cs)
				} else {
					res.Inc("project rejected (vacuous): " + firstLine(rejectionReason(cr)))
				}
				continue
			}
			generated++
			src := rp.RoutesSrc[e]
			if src == nil {
				res.AddViolation("no-routes-file-after-success", map[string]string{"engine": e}, fmt.Sprintf("[%s %s] exit 0 but no file at the configured path", p.Name, e), cs)
				continue
			}
			res.Evaluations++
			filesChecked++
			dist.Add(e, optsList[i], p.FeatureList(), len(p.Structs), len(p.Enums))
			fset := token.NewFileSet()
			f, perr := parser.ParseFile(fset, "gleece.routes.go", src, parser.PackageClauseOnly)
			if perr != nil {
				res.AddViolation("routes-file-not-go", map[string]string{"engine": e}, fmt.Sprintf("[%s %s] generated file does not parse: %v", p.Name, e, perr), cs)
			} else if f.Name.Name != "routes_"+e {
				res.AddViolation("package-clause", map[string]string{"engine": e}, fmt.Sprintf("[%s %s] package clause %q, configured %q", p.Name, e, f.Name.Name, "routes_"+e), cs)
			}
			if be := rp.BuildErr[e]; be != "" {
				cause := classifyCompileError(be)
				causes[cause]++
				first := be
				lines := strings.Split(be, "\n")
				if len(lines) > 1 {
					first = lines[1]
					if len(lines) > 2 {
						first += " | " + lines[2]
					}
				}
				res.AddViolation("does-not-compile", map[string]string{"cause": cause, "features": strings.Join(p.FeatureList(), ",")}, fmt.Sprintf("[%s %s opts=%+v] generation exited 0 but `go build` of the generated package fails: %s", p.Name, e, optsList[i], first), cs)
				continue
			}
			if d := rp.GofmtDiff[e]; d != "" {
				causes["gofmt"]++
				res.AddViolation("not-gofmt-formatted", map[string]string{"cause": "blank-lines-collapsed-after-formatting"}, fmt.Sprintf("[%s %s] gofmt -l lists the generated file", p.Name, e), cs)
			}
		}
		if len(res.Samples) < 3 {
			res.Samples = append(res.Samples, map[string]any{"project": p.Name, "features": p.FeatureList(), "opts": optsList[i], "compiled_engines": rp.Engines})
		}
	}
	res.Distinct = dist.N()
	res.Rule = fmt.Sprintf("%d projects drawn from the 'c09' profile (hostile identifier names: snake_case, digits, names colliding with template locals and Go predeclared identifiers, colliding lower-camel forms; types with equal base names from several packages; map/time/any/[]byte/nested-slice values as parameters, bodies and results; custom error types by value and pointer; security) x 5 engines x flag sets {validateResponsePayload, validateTopLevelOnlyEnum, generateEnumValidator}; every routes file a successful run leaves behind is parsed (package clause), compiled with `go build` against the engine, the user's controller packages and the instrumented authorization package, and listed by gofmt -l. distinct = distinct (engine, flags, feature set, #structs, #enums)", n)
	res.Extra("routes_files_checked", filesChecked)
	res.Extra("successful_generations", generated)
	res.Extra("failure_causes", causes)
	res.Assumptions = []string{"the Go compiler and gofmt are the oracle"}
	if generated == 0 && c.Replay == "" {
		res.Fatal = "no route generation succeeded"
	}
	return res, nil
}

func init() { Registry["C09"] = c09 }
