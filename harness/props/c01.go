package props

import (
	"fmt"
	"sort"
	"strings"

	"verif/harness/lab"
	"verif/harness/oapi"
	"verif/harness/orch"
	"verif/harness/report"
	"verif/harness/rng"
	"verif/harness/synth"
)

type opExpect struct {
	Ctl, Method string
	OperationId string
	Tag         string
	Deprecated  bool
}

// expectedOps: DESIGN §5 C01 / A.1.
func expectedOps(p *synth.Project) (map[string]opExpect, []string) {
	out := map[string]opExpect{}
	var ambiguous []string
	for ci := range p.Controllers {
		c := &p.Controllers[ci]
		if c.Decoy {
			continue
		}
		for mi := range c.Methods {
			m := &c.Methods[mi]
			if !m.IsEndpoint() || m.Hidden {
				continue
			}
			key := strings.ToLower(m.Verb) + " " + synth.FullRoute(c, m)
			if _, dup := out[key]; dup {
				ambiguous = append(ambiguous, key)
			}
			out[key] = opExpect{Ctl: c.Name, Method: m.Name, OperationId: m.Name, Tag: c.Tag, Deprecated: m.Deprecated}
		}
	}
	return out, ambiguous
}

func checkC01Doc(res *report.Result, p *synth.Project, version string, doc *oapi.Doc, sameName bool) {
	exp, amb := expectedOps(p)
	if len(amb) > 0 {
		res.Inc("two methods map to the same verb+path (generator artefact)")
		return
	}
	where := map[string]string{"same_name_controllers": fmt.Sprint(sameName)}
	got := map[string]oapi.Op{}
	for _, op := range doc.Operations() {
		got[op.Key()] = op
	}
	var gotKeys, expKeys []string
	for k := range got {
		gotKeys = append(gotKeys, k)
	}
	for k := range exp {
		expKeys = append(expKeys, k)
	}
	sort.Strings(gotKeys)
	sort.Strings(expKeys)
	for _, k := range gotKeys {
		if _, ok := exp[k]; !ok {
			res.AddViolation("invented-operation", where, fmt.Sprintf("[%s %s] operation %q (operationId %v, tags %v) has no matching annotated non-hidden method; expected operations: %v", p.Name, version, k, got[k].Raw["operationId"], got[k].Raw["tags"], expKeys), caseOf(p, map[string]any{"version": version}))
			return
		}
	}
	for _, k := range expKeys {
		op, ok := got[k]
		e := exp[k]
		if !ok {
			res.AddViolation("dropped-operation", where, fmt.Sprintf("[%s %s] annotated method %s.%s (%s) is missing from the spec; spec has %v", p.Name, version, e.Ctl, e.Method, k, gotKeys), caseOf(p, map[string]any{"version": version}))
			return
		}
		if oapi.Str(op.Raw["operationId"]) != e.OperationId {
			res.AddViolation("wrong-operation-id", where, fmt.Sprintf("[%s %s] %s has operationId %v, expected %s", p.Name, version, k, op.Raw["operationId"], e.OperationId), caseOf(p, map[string]any{"version": version}))
			return
		}
		tags := oapi.Arr(op.Raw["tags"])
		if len(tags) != 1 || oapi.Str(tags[0]) != e.Tag {
			res.AddViolation("wrong-tag", where, fmt.Sprintf("[%s %s] %s has tags %v, expected [%s]", p.Name, version, k, tags, e.Tag), caseOf(p, map[string]any{"version": version}))
			return
		}
		if oapi.Bool(op.Raw["deprecated"]) != e.Deprecated {
			res.AddViolation("wrong-deprecation", where, fmt.Sprintf("[%s %s] %s deprecated=%v, expected %v", p.Name, version, k, op.Raw["deprecated"], e.Deprecated), caseOf(p, map[string]any{"version": version}))
			return
		}
	}
}

func routeShape(p *synth.Project) string {
	var parts []string
	for ci := range p.Controllers {
		c := &p.Controllers[ci]
		nh, nd, ne, nn := 0, 0, 0, 0
		for _, m := range c.Methods {
			if !m.IsEndpoint() {
				nn++
				continue
			}
			ne++
			if m.Hidden {
				nh++
			}
			if m.Deprecated {
				nd++
			}
		}
		parts = append(parts, fmt.Sprintf("%s:f%d:e%d:h%d:d%d:n%d:%s", c.Pkg, len(c.Files), ne, nh, nd, nn, strings.Map(func(r rune) rune {
			if r == '/' || r == '{' {
				return r
			}
			return -1
		}, c.Route)))
	}
	return strings.Join(parts, "|") + fmt.Sprint(p.FeatureList())
}

func c01(c *orch.Ctx) (*report.Result, error) {
	res := &report.Result{Property: "C01"}
	bin, err := c.CLI()
	if err != nil {
		return nil, err
	}
	l, err := lab.New(c)
	if err != nil {
		return nil, err
	}
	n := 80
	if !c.Quick() {
		n = 800
	}
	var projects []*synth.Project
	if c.Replay != "" {
		var rc struct {
			Project *synth.Project `json:"project"`
		}
		if err := loadCase(c.Replay, &rc); err != nil {
			return nil, err
		}
		projects = []*synth.Project{rc.Project}
	} else {
		for i := 0; i < n; i++ {
			prof := synth.Profiles["routes"]
			if i%5 == 4 {
				prof.SameNameCtls = true
				prof.MultiPkg = true
				prof.CtlRouteParams = false
			}
			projects = append(projects, synth.Gen(rng.New(c.Seed, "C01", fmt.Sprint(i)), prof, fmt.Sprintf("p%04d", i), lab.ModPath))
		}
	}
	runs := RunSpecLab(c, l, bin, projects, specVersions, "spec")
	dist := report.NewDistincter()
	featureHist := map[string]int{}
	accepted := 0
	rejections := map[string]int{}
	opsSeen := 0
	for _, sr := range runs {
		sameName := sr.P.Features["same-name-controllers"]
		if !sr.AcceptedAll() {
			for _, v := range specVersions {
				if vr := sr.Ver[v]; vr != nil && !vr.Accepted {
					rejections[rejectionReason(vr.CLI)]++
					break
				}
			}
			res.Inc("project not accepted (vacuous)")
			continue
		}
		accepted++
		for _, f := range sr.P.FeatureList() {
			featureHist[f]++
		}
		for _, v := range specVersions {
			res.Evaluations++
			checkC01Doc(res, sr.P, v, sr.Ver[v].Doc, sameName)
			opsSeen += len(sr.Ver[v].Doc.Operations())
		}
		dist.Add(routeShape(sr.P))
		if len(res.Samples) < 3 {
			exp, _ := expectedOps(sr.P)
			var ks []string
			for k, e := range exp {
				ks = append(ks, k+" -> "+e.Ctl+"."+e.Method)
			}
			sort.Strings(ks)
			res.Samples = append(res.Samples, map[string]any{"project": sr.P.Name, "controllers": len(sr.P.Controllers), "features": sr.P.FeatureList(), "expected_operations": ks})
		}
	}
	res.Distinct = dist.N()
	res.Rule = "projects drawn from the 'routes' profile (1-4 controllers in 1-2 controller packages, each over 1-3 files, 0-8 methods, shared prefixes, {param} prefixes, doubled/trailing/missing slashes, same path on several verbs, hidden/deprecated/non-endpoint methods; every 5th project may reuse a controller name in another package); each accepted project is generated with openapi 3.0.0 and 3.1.0 and paths.* compared both ways with the operations derived from the descriptor. distinct = distinct project shapes (per controller: package, #files, #endpoints, #hidden, #deprecated, #non-endpoints, slash/param skeleton of the prefix, feature flags)"
	res.Extra("operations_observed", opsSeen)
	res.Extra("accepted_projects_by_feature", featureHist)
	res.Extra("rejection_reasons", rejections)
	acceptanceFloor(res, accepted, len(runs), 0.5)
	res.Assumptions = []string{"path normal form = collapse of slash runs in controller-route + method-route (DESIGN A.1)", "accepted = CLI exit status 0 for both versions"}
	return res, nil
}

func init() { Registry["C01"] = c01 }
