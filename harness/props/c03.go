package props

import (
	"fmt"
	"strings"

	"verif/harness/lab"
	"verif/harness/orch"
	"verif/harness/report"
	"verif/harness/rng"
	"verif/harness/synth"
)

func secKey(s synth.Security) string { return s.Scheme + ":" + strings.Join(s.Scopes, "+") }

// policyVerdict mirrors the documented policy header semantics of the instrumented callback.
func policyVerdict(policy string, s synth.Security) string {
	verdict := "ok"
	key := secKey(s)
	for _, item := range strings.Split(policy, ",") {
		if item == "" {
			continue
		}
		i := strings.LastIndex(item, "=")
		if i < 0 {
			continue
		}
		k, v := item[:i], item[i+1:]
		if k == "*" || k == key || k == s.Scheme {
			verdict = v
			if k == key {
				break
			}
		}
	}
	return verdict
}

func verdictStatus(v string) (status int, custom bool) {
	if strings.HasPrefix(v, "custom") {
		custom = true
		v = strings.TrimPrefix(v, "custom")
	}
	fmt.Sscanf(v, "%d", &status)
	if status == 0 {
		status = 401
	}
	return
}

type c03Req struct {
	br      BuiltRequest
	rr      routeRef
	policy  string
	eff     []synth.Security
	invalid bool // the request is ALSO invalid (doubly bad)
	// cancelled: the request context is already done when the handler starts (client went away); only the gate
	// is judged then - what is answered to nobody is not
	cancelled bool
}

func c03(c *orch.Ctx) (*report.Result, error) {
	res := &report.Result{Property: "C03"}
	bin, err := c.CLI()
	if err != nil {
		return nil, err
	}
	l, err := lab.New(c)
	if err != nil {
		return nil, err
	}
	n := 8
	if !c.Quick() {
		n = 80
	}
	var projects []*synth.Project
	if c.Replay != "" {
		var rc struct {
			Project *synth.Project `json:"project"`
		}
		if err := loadCase(c.Replay, &rc); err != nil {
			return nil, err
		}
		projects = []*synth.Project{rc.Project}
	} else {
		projects = genRouterProjects(c, "C03", n, func(i int, pr *synth.Profile) {
			pr.Security, pr.DefaultSecP, pr.EnforceP = true, 0.4, 0
			pr.MaxControllers, pr.MaxMethods = 3, 4
			pr.Models = 1
		})
		// shapes the random draw reaches too rarely: a default security with an empty scope list that
		// some route inherits; two verbs on one path with different method-level security
		for i, p := range projects {
			if len(p.Controllers) == 0 || len(p.Config.Schemes) == 0 {
				continue
			}
			switch i % 4 {
			case 1:
				p.Config.DefaultSecurity = &synth.Security{Scheme: p.Config.Schemes[i%len(p.Config.Schemes)].Name, Scopes: []string{}}
				p.Config.Enforce = false
				c0 := &p.Controllers[0]
				c0.Security = nil
				for mi := range c0.Methods {
					if mi%2 == 0 {
						c0.Methods[mi].Security = nil
					}
				}
				p.SetFeature("default-security-without-scopes-inherited")
			case 2:
				for ci := range p.Controllers {
					ms := p.Controllers[ci].Methods
					for a := range ms {
						for b := range ms {
							if a < b && ms[a].IsEndpoint() && ms[b].IsEndpoint() && ms[a].Route == ms[b].Route && ms[a].Verb != ms[b].Verb {
								ms[a].Security = []synth.Security{{Scheme: p.Config.Schemes[0].Name, Scopes: []string{"read"}}}
								ms[b].Security = []synth.Security{{Scheme: p.Config.Schemes[len(p.Config.Schemes)-1].Name, Scopes: []string{"admin"}}}
								p.SetFeature("same-path-verbs-with-different-security")
							}
						}
					}
				}
			}
		}
	}
	dist := report.NewDistincter()
	counts := map[string]int{}
	enginesSeen := map[string]int{}
	running := 0
	rps := make([]*RouterProject, len(projects))
	orch.ParallelMap(len(projects), 4, func(i int) { rps[i] = BuildRouterProject(c, l, bin, projects[i], RouterOpts{}) })
	for _, rp := range rps {
		p := rp.P
		if len(rp.Engines) == 0 {
			res.Inc("no generated router compiled or project rejected")
			continue
		}
		running++
		r := rng.New(c.Seed, "C03-req", p.Name)
		var reqs []c03Req
		k := 0
		for _, rr := range endpointsOf(p) {
			eff := p.EffectiveSecurity(rr.c, rr.m)
			var policies []string
			policies = append(policies, "")
			if len(eff) > 0 {
				policies = append(policies, "*=401", "*=custom403", "*=418")
				for i, a := range eff {
					policies = append(policies, secKey(a)+"=401")                             // refuse exactly alternative i
					policies = append(policies, "*=401,"+secKey(a)+"=ok")                     // approve only alternative i
					policies = append(policies, fmt.Sprintf("*=403,%s=%d", secKey(a), 401+i)) // differing statuses
				}
			} else {
				policies = append(policies, "*=401") // unsecured route: the callback must not even matter
			}
			for _, pol := range policies {
				plans := []reqPlan{{Class: "typical"}}
				// doubly bad variants
				for _, pr := range rr.m.Params {
					if pr.In == "ctx" || pr.In == "path" {
						continue
					}
					if pr.Required() {
						plans = append(plans, reqPlan{Class: "typical", Omit: pr.GoName})
					}
					if primOf(p, pr.Type) != "string" && primOf(p, pr.Type) != "" {
						plans = append(plans, reqPlan{Class: "typical", IllTyped: pr.GoName})
					}
					if pr.In == "body" {
						plans = append(plans, reqPlan{Class: "typical", BadBody: true})
					}
					if len(plans) >= 3 {
						break
					}
				}
				for _, plan := range plans {
					k++
					br, ok := buildRequest(r, p, rr.c, rr.m, fmt.Sprintf("%s-r%04d", p.Name, k), plan)
					if !ok {
						continue
					}
					if pol != "" {
						br.Req.Headers["X-Verif-Policy"] = pol
					}
					reqs = append(reqs, c03Req{br: br, rr: rr, policy: pol, eff: eff, invalid: br.Expect422})
				}
			}
			if len(eff) > 0 {
				for _, pol := range []string{"*=401", ""} {
					k++
					if br, ok := buildRequest(r, p, rr.c, rr.m, fmt.Sprintf("%s-r%04d", p.Name, k), reqPlan{Class: "typical"}); ok {
						br.Req.Headers["X-Verif-Cancel"] = "1"
						if pol != "" {
							br.Req.Headers["X-Verif-Policy"] = pol
						}
						br.Why += "; request context already cancelled"
						reqs = append(reqs, c03Req{br: br, rr: rr, policy: pol, eff: eff, cancelled: true})
					}
				}
			}
		}
		gor := 0
		if !c.Quick() {
			gor = 8
		}
		wl := Workload{Goroutines: gor}
		for _, q := range reqs {
			wl.Requests = append(wl.Requests, q.br.Req)
		}
		run, err := rp.Run(wl, gor > 0)
		if err != nil {
			res.Inc("probe did not run: " + firstLine(err.Error()))
			continue
		}
		for _, eng := range rp.Engines {
			enginesSeen[eng]++
			for _, q := range reqs {
				suffixes := []string{""}
				for g := 0; g < gor; g++ {
					suffixes = append(suffixes, fmt.Sprintf("#g%d", g))
				}
				for _, sfx := range suffixes {
					rid := q.br.Req.Rid + "@" + eng + sfx
					evs := run.ByRid[rid]
					resp := run.resp(rid)
					if resp == nil {
						if sfx == "" {
							res.Inc("no response recorded")
						}
						continue
					}
					res.Evaluations++
					cs := map[string]any{"project": p, "request": q.br, "policy": q.policy, "engine": eng}
					label := fmt.Sprintf("[%s %s %s %s policy=%q effective={%s} (%s)]", p.Name, eng, q.br.Req.Verb, q.br.Req.Target, q.policy, secString(q.eff), q.br.Why)
					where := map[string]string{"engine": eng}
					// expected authorisation outcome from the descriptor + policy
					approvedAlt := -1
					var refusalStatuses []int
					customAny := false
					for i, a := range q.eff {
						v := policyVerdict(q.policy, a)
						if v == "ok" || v == "" {
							if approvedAlt < 0 {
								approvedAlt = i
							}
						} else {
							st, cu := verdictStatus(v)
							refusalStatuses = append(refusalStatuses, st)
							customAny = customAny || cu
						}
					}
					secured := len(q.eff) > 0
					if q.invalid {
						counts["doubly-bad-or-invalid-requests"]++
					}
					authorised := !secured || approvedAlt >= 0
					dist.Add(eng, len(q.eff), authorised, q.invalid, strings.Count(q.policy, ","), customAny, len(q.rr.m.Security) > 0, len(q.rr.c.Security) > 0)
					// T-gate: anything past the gate needs the approvals of one whole alternative before it
					approvedBefore := func(seq int64) bool {
						if !secured {
							return true
						}
						for _, a := range q.eff {
							for _, e := range evs {
								if e.Ev == "auth" && e.Decision == "approve" && e.Seq < seq && e.Scheme == a.Scheme && strings.Join(e.Scopes, "+") == strings.Join(a.Scopes, "+") {
									return true
								}
							}
						}
						return false
					}
					violated := false
					for _, e := range evs {
						past := e.Ev == "call" || e.Ev == "body_read" || (e.Ev == "mw" && (e.Kind == "before_operation" || e.Kind == "input_validation"))
						if past && secured {
							counts["past-gate-events-checked"]++
						}
						if past && !approvedBefore(e.Seq) {
							counts["gate-breaches"]++
							res.AddViolation("controller-side-code-ran-before-approval", map[string]string{"engine": eng, "event": e.Ev + e.Kind}, fmt.Sprintf("%s event %s%s (seq %d) is not preceded by the approval of any effective alternative", label, e.Ev, e.Kind, e.Seq), cs)
							violated = true
							break
						}
					}
					if violated {
						continue
					}
					calls := run.calls(rid)
					if secured {
						counts["secured-requests"]++
						sawAuth := false
						for _, e := range evs {
							if e.Ev == "auth" {
								sawAuth = true
							}
						}
						if !sawAuth && resp.Status != 404 && resp.Status != 405 {
							res.AddViolation("no-authorization-attempt", where, fmt.Sprintf("%s the route has effective security but the callback was never consulted (status %d)", label, resp.Status), cs)
							continue
						}
					}
					if !authorised {
						counts["refused-everywhere"]++
						if len(calls) > 0 {
							res.AddViolation("invoked-although-every-alternative-refused", where, label+" the controller method ran", cs)
							continue
						}
						if q.cancelled {
							continue // nobody is listening: the status is not judged
						}
						okStatus := false
						for _, st := range refusalStatuses {
							if st == resp.Status {
								okStatus = true
							}
						}
						if !okStatus {
							kind := "refusal-status"
							if q.invalid && resp.Status == 422 {
								kind = "validation-answered-before-authorization"
							}
							res.AddViolation(kind, where, fmt.Sprintf("%s answered %d, the refusals carried %v", label, resp.Status, refusalStatuses), cs)
							continue
						}
						if customAny && len(refusalStatuses) == len(q.eff) && strings.HasPrefix(policyVerdict(q.policy, q.eff[len(q.eff)-1]), "custom") {
							want := fmt.Sprintf(`{"why":"custom refusal","code":%d}`, resp.Status)
							if !sameJSON(strings.TrimSpace(resp.Body), want) {
								res.AddViolation("custom-refusal-payload", where, fmt.Sprintf("%s body %q, the callback's custom payload is %s", label, firstLine(resp.Body), want), cs)
							}
						}
						continue
					}
					counts["authorised"]++
					if q.cancelled {
						continue // whether a handler still bothers to serve a vanished client is not stated
					}
					// authorised: a valid request must be delivered, an invalid one answered 422
					if q.invalid {
						if len(calls) > 0 || resp.Status != 422 {
							res.Inc("authorised-but-invalid request not answered 422 (C05's subject)")
						}
					} else if len(calls) != 1 {
						res.AddViolation("authorised-request-not-delivered", map[string]string{"engine": eng, "status": fmt.Sprint(resp.Status)}, fmt.Sprintf("%s %d calls, status %d: %s", label, len(calls), resp.Status, firstLine(resp.Body)), cs)
					}
				}
			}
		}
		if gor > 0 {
			for _, blk := range run.raceInGenerated(p.ModPath) {
				res.AddViolation("data-race-in-generated-router", nil, fmt.Sprintf("[%s] %s", p.Name, blk), map[string]any{"project": p})
			}
		}
		if len(res.Samples) < 3 && len(reqs) > 4 {
			q := reqs[3]
			res.Samples = append(res.Samples, map[string]any{"project": p.Name, "route": q.rr.c.Name + "." + q.rr.m.Name, "effective": secString(q.eff), "policy": q.policy, "request": q.br.Req, "events": run.ByRid[q.br.Req.Rid+"@"+rp.Engines[0]]})
		}
	}
	res.Distinct = dist.N()
	res.Rule = "compile-safe projects with security at method / controller / default level (1-3 alternatives, 0-3 scopes, repeated schemes) x 5 engines; per route every scripted behaviour of the instrumented authorization callback (approve all, refuse all with 401 / 418 / a custom payload, refuse exactly alternative i, approve only alternative i, differing statuses per alternative; header X-Verif-Policy), each combined with a valid request and with doubly-bad requests (unauthorised AND missing required parameter / unconvertible value / malformed body). Offline trace check per request id: every call / body_read / before-operation / input-validation event must be preceded by the approvals of one whole effective alternative; refused-everywhere requests must show no call and a status among the refusals (custom payload echoed). distinct = distinct (engine, #alternatives, authorised?, invalid?, policy shape, custom?, method-level?, controller-level?)"
	res.Extra("observations", counts)
	res.Extra("projects_with_a_running_router", running)
	res.Extra("engines_exercised", enginesSeen)
	res.Assumptions = []string{"body_read is not observable for fiber (app.Test hands over a fully read body): there the ordering verdict rests on the status of doubly-bad requests and the input-validation middleware event", "which refusal's status is returned when several alternatives refuse differently is not judged beyond membership"}
	if running == 0 && c.Replay == "" {
		res.Fatal = "no project produced a running router"
	}
	return res, nil
}

func init() { Registry["C03"] = c03 }
