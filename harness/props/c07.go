package props

import (
	"encoding/json"
	"fmt"
	"reflect"
	"sort"
	"strings"
	"verif/harness/rng"

	"verif/harness/oapi"
	"verif/harness/orch"
	"verif/harness/report"
	"verif/harness/synth"
)

func enumSet(vals []any) []string {
	var out []string
	for _, v := range vals {
		out = append(out, fmt.Sprint(v))
	}
	sort.Strings(out)
	return out
}

// checkComponents compares components.schemas of one document with the declarations (A.6).
func checkComponents(res *report.Result, p *synth.Project, version string, doc *oapi.Doc) {
	schemas := doc.Schemas()
	must := reachable(p, false) // reachable from documented routes
	may := reachable(p, true)   // additionally reachable from hidden routes: presence not judged
	where := func(extra map[string]string) map[string]string {
		w := map[string]string{"version": version}
		for k, v := range extra {
			w[k] = v
		}
		return w
	}
	cs := func(extra map[string]any) map[string]any {
		m := map[string]any{"version": version}
		for k, v := range extra {
			m[k] = v
		}
		return caseOf(p, m)
	}
	// same-named types in two packages collapse onto one key: not judged here (ambiguity by construction)
	names := map[string]int{}
	for k := range may {
		names[k.Name]++
	}
	// "one schema for each reachable struct, enum and alias": n same-named declarations need n schemas,
	// under whatever keys; their content is not compared (which key belongs to which is not stated)
	mustByName := map[string]int{}
	for k := range must {
		mustByName[k.Name]++
	}
	for name, n := range mustByName {
		if n < 2 {
			continue
		}
		have := 0
		for key := range schemas {
			if key == name || strings.Contains(key, name) {
				have++
			}
		}
		if have < n {
			res.AddViolation("same-named-types-share-one-component", where(map[string]string{"cause": "reachable-types-in-different-packages-share-a-bare-name"}), fmt.Sprintf("[%s %s] %d reachable declarations are named %s (different packages) but components.schemas has %d schema(s) for them: %v", p.Name, version, n, name, have, keysOf(schemas)), cs(map[string]any{"type": name}))
			break
		}
	}
	for k := range must {
		if names[k.Name] > 1 {
			continue
		}
		if _, ok := schemas[k.Name]; !ok {
			res.AddViolation("component-missing", where(nil), fmt.Sprintf("[%s %s] reachable type %s.%s has no component schema (has %v)", p.Name, version, k.Pkg, k.Name, keysOf(schemas)), cs(nil))
			return
		}
	}
	mayNames := map[string]bool{}
	for k := range may {
		mayNames[k.Name] = true
	}
	for name := range schemas {
		if name == "Rfc7807Error" {
			continue // required when a plain error is returned (checked below); otherwise not judged
		}
		if !mayNames[name] {
			res.AddViolation("component-unreachable", where(nil), fmt.Sprintf("[%s %s] component %s is not reachable from any route's parameters or results", p.Name, version, name), cs(nil))
			return
		}
	}
	if plainErrorUsed(p) {
		if _, ok := schemas["Rfc7807Error"]; !ok {
			res.AddViolation("rfc7807-missing", where(nil), fmt.Sprintf("[%s %s] a route returns a plain error but Rfc7807Error is not a component", p.Name, version), cs(nil))
			return
		}
	}
	for k := range must {
		if names[k.Name] > 1 {
			continue
		}
		s := oapi.Obj(schemas[k.Name])
		switch {
		case p.Struct(k.Pkg, k.Name) != nil:
			st := p.Struct(k.Pkg, k.Name)
			want, wantReq := expectedStruct(st)
			got := canonSchema(s)
			if got != want {
				cause := map[string]string{}
				for _, f := range st.Fields {
					if !f.Embedded && !f.Exported() {
						cause["has_unexported_field"] = "true"
					}
					if f.JSONName == "-" {
						cause["has_json_dash_field"] = "true"
					}
				}
				res.AddViolation("struct-schema-mismatch", where(cause), fmt.Sprintf("[%s %s] component %s is %s, declaration says %s", p.Name, version, k.Name, got, want), cs(map[string]any{"type": k.Name}))
				return
			}
			own := s
			if all := oapi.Arr(s["allOf"]); len(all) > 0 {
				own = oapi.Obj(all[0])
			}
			var gotReq []string
			for _, r := range oapi.Arr(own["required"]) {
				gotReq = append(gotReq, oapi.Str(r))
			}
			sort.Strings(gotReq)
			if strings.Join(gotReq, ",") != strings.Join(wantReq, ",") {
				res.AddViolation("struct-required-mismatch", where(nil), fmt.Sprintf("[%s %s] component %s required=%v, declaration says %v", p.Name, version, k.Name, gotReq, wantReq), cs(map[string]any{"type": k.Name}))
				return
			}
		case p.Enum(k.Pkg, k.Name) != nil:
			e := p.Enum(k.Pkg, k.Name)
			var want []string
			for _, v := range e.Values {
				want = append(want, v.Text)
			}
			sort.Strings(want)
			got := enumSet(oapi.Arr(s["enum"]))
			if strings.Join(got, "\x00") != strings.Join(want, "\x00") {
				usage := fmt.Sprint(p.Features["usage-site-validator-on-ref"])
				res.AddViolation("enum-values-mismatch", where(map[string]string{"usage_site_validator_on_ref": usage}), fmt.Sprintf("[%s %s] enum component %s lists %v, declared constants are %v", p.Name, version, k.Name, got, want), cs(map[string]any{"type": k.Name}))
				return
			}
			if t := oapi.SchemaType(s); t != primSchema(e.Base) {
				res.AddViolation("enum-type-mismatch", where(nil), fmt.Sprintf("[%s %s] enum component %s has type %s, underlying kind %s maps to %s", p.Name, version, k.Name, t, e.Base, primSchema(e.Base)), cs(map[string]any{"type": k.Name}))
				return
			}
		case p.Alias(k.Pkg, k.Name) != nil:
			a := p.Alias(k.Pkg, k.Name)
			if t := oapi.SchemaType(s); t != primSchema(a.Base) {
				res.AddViolation("alias-type-mismatch", where(nil), fmt.Sprintf("[%s %s] alias component %s has type %s, underlying %s maps to %s", p.Name, version, k.Name, t, a.Base, primSchema(a.Base)), cs(map[string]any{"type": k.Name}))
				return
			}
		}
	}
}

func typeGraphShape(p *synth.Project) string {
	var parts []string
	for _, st := range p.Structs {
		var fs []string
		for _, f := range st.Fields {
			tag := ""
			if f.Embedded {
				tag = "E"
			}
			if f.JSONName == "-" {
				tag += "H"
			}
			if !f.Embedded && !f.Exported() {
				tag += "U"
			}
			fs = append(fs, tag+expSchemaShape(f.Type))
		}
		sort.Strings(fs)
		parts = append(parts, strings.Join(fs, ","))
	}
	sort.Strings(parts)
	return strings.Join(parts, "|") + fmt.Sprint(len(p.Enums), len(p.Aliases))
}

// expSchemaShape is expSchema with type names erased.
func expSchemaShape(t synth.T) string {
	s := expSchema(t)
	if i := strings.Index(s, "ref:"); i >= 0 {
		return s[:i] + "ref"
	}
	return s
}

// c07Decorate puts usage-site decorations (deprecation, description; validators come from the profile) on
// fields whose type is a named type; c07Strip returns a clone without any of them. The shared components of
// the field TYPES must be the same JSON in both projects ("a type's schema is a function of its declaration alone").
func c07Decorate(p *synth.Project, r interface {
	Intn(int) int
}) int {
	n := 0
	// two structs get a time.Time / []byte field each; only the first one's is decorated (a shared schema object
	// behind "date-time" / "binary" would carry the decoration over to the second)
	added := 0
	for si := range p.Structs {
		st := &p.Structs[si]
		if st.IsError || st.Name == "" || st.Name[0] < 'A' || st.Name[0] > 'Z' || added >= 2 {
			continue
		}
		has := false
		for _, f := range st.Fields {
			if f.GoName == "Stamp" || f.GoName == "Blob" {
				has = true
			}
		}
		if has {
			continue
		}
		fs := []synth.Field{{GoName: "Stamp", Type: synth.T{K: "time"}, JSONName: "stamp"}, {GoName: "Blob", Type: synth.T{K: "bytes"}, JSONName: "blob"}}
		if added == 0 {
			fs[0].Deprecated, fs[0].Descr = true, "When it happened (deprecated here only)"
			fs[1].Descr = "Raw bytes, described here only"
			n += 2
		}
		st.Fields = append(st.Fields, fs...)
		added++
	}
	for si := range p.Structs {
		for fi := range p.Structs[si].Fields {
			if p.Structs[si].Fields[fi].GoName == "Stamp" || p.Structs[si].Fields[fi].GoName == "Blob" {
				continue
			}
			f := &p.Structs[si].Fields[fi]
			if k := f.Type.Base().K; f.Embedded || (k != "named" && k != "time" && k != "bytes") {
				continue
			}
			switch r.Intn(4) {
			case 0:
				f.Deprecated = true
				n++
			case 1:
				f.Descr = "Usage-site text for " + f.GoName
				n++
			case 2:
				f.Deprecated, f.Descr = true, "Deprecated here only"
				n++
			}
			if f.Validate != "" {
				n++
			}
		}
	}
	// the same for parameters: a description on a parameter of a named type belongs to the parameter
	for ci := range p.Controllers {
		for mi := range p.Controllers[ci].Methods {
			for pi := range p.Controllers[ci].Methods[mi].Params {
				pr := &p.Controllers[ci].Methods[mi].Params[pi]
				if pr.In != "ctx" && pr.In != "body" && pr.Type.Base().K == "named" && r.Intn(2) == 0 {
					pr.Descr = "Usage-site text for parameter " + pr.GoName
					n++
				}
			}
		}
	}
	return n
}

func c07Strip(p *synth.Project, name string) (*synth.Project, map[string]bool) {
	b, _ := json.Marshal(p)
	var q synth.Project
	_ = json.Unmarshal(b, &q)
	q.ModPath = strings.TrimSuffix(q.ModPath, p.Name) + name
	q.Name = name
	touched := map[string]bool{}
	for si := range q.Structs {
		for fi := range q.Structs[si].Fields {
			f := &q.Structs[si].Fields[fi]
			if k := f.Type.Base().K; f.Embedded || (k != "named" && k != "time" && k != "bytes") {
				continue
			}
			if f.Deprecated || f.Descr != "" || f.Validate != "" {
				f.Deprecated, f.Descr, f.Validate = false, "", ""
				touched[q.Structs[si].Name] = true
			}
		}
	}
	for ci := range q.Controllers {
		for mi := range q.Controllers[ci].Methods {
			for pi := range q.Controllers[ci].Methods[mi].Params {
				pr := &q.Controllers[ci].Methods[mi].Params[pi]
				if pr.Type.Base().K == "named" && pr.Validate != "" && pr.Validate != "required" {
					pr.Validate = ""
				}
				if pr.Type.Base().K == "named" && pr.In != "body" {
					pr.Descr = ""
				}
			}
		}
	}
	return &q, touched
}

func c07(c *orch.Ctx) (*report.Result, error) {
	comps := 0
	base := genFromProfile("C07", "models", nil)
	twins := map[string]string{}              // stripped project -> decorated project
	touchedBy := map[string]map[string]bool{} // stripped project -> structs whose own field list changed
	var last *synth.Project
	pairsCompared, componentsCompared := 0, 0
	return runSpecProp(c, specProp{
		id: "C07", nQuick: 70, nThorough: 600, floor: 0.6,
		replayCompanion: func(p *synth.Project) *synth.Project {
			if !p.HasFeature("usage-site-decorations") {
				return nil
			}
			q, touched := c07Strip(p, p.Name+"s")
			twins[q.Name] = p.Name
			touchedBy[q.Name] = touched
			return q
		},
		gen: func(cx *orch.Ctx, i int) *synth.Project {
			if i%4 == 3 && last != nil {
				q, touched := c07Strip(last, fmt.Sprintf("p%04ds", i))
				twins[q.Name] = last.Name
				touchedBy[q.Name] = touched
				last = nil
				return q
			}
			p := base(cx, i)
			if i%4 == 2 {
				if c07Decorate(p, rng.New(cx.Seed, "C07-decorate", fmt.Sprint(i))) > 0 {
					p.SetFeature("usage-site-decorations")
					last = p
				}
			}
			return p
		},
		rule:   "projects drawn from the 'models' profile (3-8 structs over up to 4 packages: acyclic and self/mutually recursive references via pointers/slices, embedded structs, enums of 8 basic kinds incl. '='-style, typedef/assigned aliases, nested slices, string-keyed maps, time.Time, []byte, any, unexported and json:\"-\" fields, omitempty, decoy constants, unreachable decoy types, usage-site validators on enum-typed fields); components.schemas of both spec versions compared with the reachability closure and the per-declaration schema derived from the descriptor (DESIGN A.4/A.6). distinct = distinct type-graph shapes (per struct the multiset of field schema shapes and visibility flags; #enums; #aliases)",
		assume: []string{"a type reachable only from hidden routes may or may not have a component (not judged); Rfc7807Error is required when a route returns plain error and otherwise not judged; enum values are compared by printed form (their JSON typing is C08's subject)"},
		check: func(res *report.Result, sr *SpecRun, dist *report.Distincter) {
			for _, v := range specVersions {
				res.Evaluations++
				comps += len(sr.Ver[v].Doc.Schemas())
				checkComponents(res, sr.P, v, sr.Ver[v].Doc)
			}
			dist.Add(typeGraphShape(sr.P))
			if len(res.Samples) < 2 {
				var decls []string
				for _, st := range sr.P.Structs {
					w, r := expectedStruct(&st)
					decls = append(decls, fmt.Sprintf("%s.%s => %s required=%v", st.Pkg, st.Name, w, r))
				}
				res.Samples = append(res.Samples, map[string]any{"project": sr.P.Name, "expected_struct_components": decls, "features": sr.P.FeatureList()})
			}
		},
		finish: func(res *report.Result, runs []*SpecRun) {
			res.Extra("components_observed", comps)
			byName := map[string]*SpecRun{}
			for _, sr := range runs {
				byName[sr.P.Name] = sr
			}
			for stripped, decorated := range twins {
				a, b := byName[decorated], byName[stripped]
				if a == nil || b == nil {
					continue
				}
				for _, v := range specVersions {
					if a.Ver[v] == nil || b.Ver[v] == nil || a.Ver[v].Doc == nil || b.Ver[v].Doc == nil || !a.Ver[v].Accepted || !b.Ver[v].Accepted {
						continue
					}
					pairsCompared++
					sa, sb := a.Ver[v].Doc.Schemas(), b.Ver[v].Doc.Schemas()
					for name, want := range sb {
						got, ok := sa[name]
						if !ok || touchedBy[stripped][name] {
							continue
						}
						componentsCompared++
						if !reflect.DeepEqual(got, want) {
							gj, _ := json.Marshal(got)
							wj, _ := json.Marshal(want)
							res.AddViolation("component-changes-with-usage-site-decoration", map[string]string{"version": v}, fmt.Sprintf("[%s vs %s %s] component %s is %s when fields of that type carry @Deprecated / description / validators elsewhere, and %s when they do not", decorated, stripped, v, name, gj, wj), caseOf(a.P, map[string]any{"version": v, "type": name}))
							break
						}
					}
				}
			}
			res.Extra("usage_site_pairs_compared", pairsCompared)
			res.Extra("components_compared_across_pairs", componentsCompared)
		},
	})
}

func init() { Registry["C07"] = c07 }
