package props

import (
	"encoding/json"
	"fmt"
	"os"
	"path/filepath"
	"sync"

	"verif/harness/lab"
	"verif/harness/monitors/pipe"
	"verif/harness/orch"
	"verif/harness/report"
	"verif/harness/rng"
	"verif/harness/synth"
)

var c19Histories = []string{"GVIGVIGVIF", "GGVIIF", "GIVIGIF", "RRRF", "GVGVGVIIF", "FRGIF"}

func censusString(m map[string]int, edges int) string {
	b, _ := json.Marshal(m)
	return fmt.Sprintf("%s edges=%d", b, edges)
}

func firstDiff(a, b string) string {
	n := len(a)
	if len(b) < n {
		n = len(b)
	}
	i := 0
	for i < n && a[i] == b[i] {
		i++
	}
	lo := i - 60
	if lo < 0 {
		lo = 0
	}
	hiA, hiB := i+100, i+100
	if hiA > len(a) {
		hiA = len(a)
	}
	if hiB > len(b) {
		hiB = len(b)
	}
	return fmt.Sprintf("first difference at byte %d: …%s… vs …%s…", i, a[lo:hiA], b[lo:hiB])
}

func c19(c *orch.Ctx) (*report.Result, error) {
	res := &report.Result{Property: "C19"}
	l, err := lab.New(c)
	if err != nil {
		return nil, err
	}
	inproc, err := c.Inproc()
	if err != nil {
		return nil, err
	}
	n := 30
	if !c.Quick() {
		n = 250
	}
	type job struct {
		p    *synth.Project
		pt   *Perturbation
		hist string
		out  *pipe.RerunOut
		err  string
	}
	var jobs []*job
	if c.Replay != "" {
		var rc struct {
			Project *synth.Project `json:"project"`
			History string         `json:"history"`
		}
		if err := loadCase(c.Replay, &rc); err != nil {
			return nil, err
		}
		jobs = append(jobs, &job{p: rc.Project, hist: rc.History})
	} else {
		for i := 0; i < n; i++ {
			r := rng.New(c.Seed, "C19", fmt.Sprint(i))
			prof := synth.Profiles["fullspec"]
			prof.MaxControllers = 2
			prof.HiddenJSON = true // unexported / json:"-" fields in front of visible ones
			p := synth.Gen(r, prof, fmt.Sprintf("p%04d", i), lab.ModPath)
			if i%3 == 0 && p.Pkg("models") != nil {
				// a controller in a file the globs do not match, inside a package that is only loaded because the
				// controllers import it: it must not show up on any pass
				if p.ExtraFiles == nil {
					p.ExtraFiles = map[string]string{}
				}
				p.ExtraFiles["models/zz_decoy.go"] = decoyController("models", "DecoyInModels")
				p.SetFeature("unglobbed-controller-in-imported-package")
			}
			if i%2 == 0 {
				// @TemplateContext options (a map owned by the cached annotation) with and without trailing text
				for ci := range p.Controllers {
					for mi := range p.Controllers[ci].Methods {
						m := &p.Controllers[ci].Methods[mi]
						if m.Verb == "" {
							continue
						}
						switch (ci + mi) % 3 {
						case 0:
							m.ExtraAnn = append(m.ExtraAnn, `// @TemplateContext(MODE, {mode: "100", description: "shown in templates"})`)
						case 1:
							m.ExtraAnn = append(m.ExtraAnn, `// @TemplateContext(LEVEL, {value: "high", description: "inner"}) trailing words`)
						}
					}
				}
				p.SetFeature("template-context-with-description-option")
			}
			var pt *Perturbation
			if i%5 == 4 {
				// a project that fails validation: diagnostics must be stable too
				pt = ApplyPerturbation(p, []string{"P1", "P7", "P10", "P21", "P20"}[(i/5)%5], r)
			}
			hs := c19Histories
			if c.Quick() {
				hs = []string{c19Histories[i%len(c19Histories)], c19Histories[(i+1)%len(c19Histories)], c19Histories[(i+3)%len(c19Histories)]}
			}
			if pt != nil && pt.Expect == "reject" {
				// not an accepted project: only graph generation and validation are repeated
				// (GenerateIntermediate on a project with error diagnostics is outside the statement)
				hs = []string{"GVGVGVF", "GGVVF"}
			}
			for _, h := range hs {
				jobs = append(jobs, &job{p: p, pt: pt, hist: h})
			}
		}
	}
	written := map[string]string{}
	var mu sync.Mutex
	orch.ParallelMap(len(jobs), c.Parallel, func(i int) {
		j := jobs[i]
		mu.Lock()
		dir, ok := written[j.p.Name]
		if !ok {
			d, err := l.Write(j.p, j.p.Render(synth.RenderOpts{}))
			if err != nil {
				mu.Unlock()
				panic(err)
			}
			written[j.p.Name] = d
			dir = d
		}
		mu.Unlock()
		out := filepath.Join(c.Work, fmt.Sprintf("rerun-%s-%d.json", j.p.Name, i))
		// iteration orders are pinned through hook H1 (VERIF_ORDER=canon): order dependence is C13's subject
		env := append(append([]string{}, c.GoEnv...), "VERIF_ORDER=canon")
		pr := orch.Run(dir, env, 300, filepath.Join(c.Work, fmt.Sprintf("logs-rerun-%d", i)), inproc, "rerun", "-dir", dir, "-config", "gleece.config.json", "-history", j.hist, "-out", out)
		if b, err := os.ReadFile(out); err == nil {
			var ro pipe.RerunOut
			if json.Unmarshal(b, &ro) == nil {
				j.out = &ro
			}
		}
		if j.out == nil {
			j.err = fmt.Sprintf("rerun exited %d: %s", pr.Exit, lab.Tail(pr.Stderr, 600))
		}
	})
	dist := report.NewDistincter()
	stepsSeen, accepted := 0, 0
	for _, j := range jobs {
		cs := map[string]any{"project": j.p, "history": j.hist}
		if j.out == nil {
			res.Inc("rerun did not complete: " + firstLine(j.err))
			continue
		}
		if j.out.Panic != "" {
			res.AddViolation("panic-on-reanalysis", map[string]string{"history": j.hist}, fmt.Sprintf("[%s %s] %s", j.p.Name, j.hist, j.out.Panic), cs)
			continue
		}
		if j.out.ConfigErr != "" {
			res.Inc("project did not load: " + firstLine(j.out.ConfigErr))
			continue
		}
		res.Evaluations++
		var firstMeta, firstSpec, firstDiags, firstErrG string
		var firstCensus string
		haveMeta, haveDiags, haveCensus := false, false, false
		ok := true
		for si, st := range j.out.Steps {
			stepsSeen++
			where := map[string]string{"history": j.hist}
			label := fmt.Sprintf("[%s history=%s step %d (%s)]", j.p.Name, j.hist, si, st.Op)
			if st.Op == "G" {
				if si == 0 || firstErrG == "" && !haveCensus {
					firstErrG = st.Err
				} else if st.Err != firstErrG {
					res.AddViolation("graph-error-differs-between-passes", where, fmt.Sprintf("%s GenerateGraph error %q, first pass %q", label, st.Err, firstErrG), cs)
					ok = false
					break
				}
			}
			if st.Op != "F" && st.Census != nil {
				cen := censusString(st.Census, st.Edges)
				if !haveCensus {
					firstCensus, haveCensus = cen, true
				} else if cen != firstCensus {
					res.AddViolation("graph-grows-on-reanalysis", where, fmt.Sprintf("%s node/edge census %s, after the first pass %s", label, cen, firstCensus), cs)
					ok = false
					break
				}
			}
			if st.Op == "F" && st.Census != nil && haveCensus {
				if cen := censusString(st.Census, st.Edges); cen != firstCensus {
					res.AddViolation("graph-differs-from-fresh-session", where, fmt.Sprintf("%s a brand-new pipeline has census %s, the long-lived one %s", label, cen, firstCensus), cs)
					ok = false
					break
				}
			}
			if st.Op == "V" {
				if !haveDiags {
					firstDiags, haveDiags = st.Diags+"|"+st.Err, true
				} else if st.Diags+"|"+st.Err != firstDiags {
					res.AddViolation("diagnostics-differ-between-passes", where, fmt.Sprintf("%s %s", label, firstDiff(firstDiags, st.Diags+"|"+st.Err)), cs)
					ok = false
					break
				}
			}
			if st.Op == "I" || st.Op == "R" || st.Op == "F" {
				key := st.Meta + "|" + st.Err
				if st.Op == "I" && st.Err == "" && j.pt != nil && j.pt.Expect == "reject" {
					// GenerateIntermediate on a project with error diagnostics is allowed to work; Run is not comparable with it
				}
				if !haveMeta {
					firstMeta, firstSpec, haveMeta = key, st.SpecHash, true
				} else {
					// R and F stop at error diagnostics, I does not: compare like with like
					comparable := !(j.pt != nil && j.pt.Expect == "reject")
					if comparable && key != firstMeta {
						kind := "metadata-differs-between-passes"
						if st.Op == "F" {
							kind = "metadata-differs-from-fresh-session"
						}
						res.AddViolation(kind, where, fmt.Sprintf("%s %s", label, firstDiff(firstMeta, key)), cs)
						ok = false
						break
					}
					if comparable && st.SpecHash != firstSpec {
						res.AddViolation("spec-differs-between-passes", where, fmt.Sprintf("%s spec bytes hash %s, first %s", label, st.SpecHash, firstSpec), cs)
						ok = false
						break
					}
				}
			}
		}
		if ok && haveMeta {
			accepted++
		}
		dist.Add(j.hist, len(j.p.Controllers), len(j.p.Structs) > 3, j.pt != nil, haveMeta)
		if len(res.Samples) < 3 && ok {
			var steps []string
			for _, st := range j.out.Steps {
				steps = append(steps, fmt.Sprintf("%s: err=%t census=%s metaBytes=%d", st.Op, st.Err != "", censusString(st.Census, st.Edges), len(st.Meta)))
			}
			res.Samples = append(res.Samples, map[string]any{"project": j.p.Name, "history": j.hist, "steps": steps})
		}
	}
	res.Distinct = dist.N()
	res.Rule = fmt.Sprintf("%d 'fullspec' projects (every 5th carrying a validation-failing perturbation) x call histories %v on ONE long-lived GleecePipeline (G=GenerateGraph V=Validate I=GenerateIntermediate R=Run F=Run on a brand-new pipeline), one child process per (project, history). After every step: canonical (order-insensitive) GleeceFlattenedMetadata, spec bytes generated from it, the diagnostics list, and a census of the symbol graph by kind plus its distinct edge count (public API only) are compared with the first pass and with the fresh pipeline. distinct = distinct (history, #controllers, model richness, failing?, reached metadata?)", n, c19Histories)
	res.Extra("steps_observed", stepsSeen)
	res.Extra("runs_with_equal_metadata_throughout", accepted)
	res.Assumptions = []string{"metadata is compared in an order-insensitive canonical form (ordering is C13's subject)", "projects with error diagnostics: only diagnostics, graph census and GenerateGraph errors are compared (Run stops early there)", "iteration orders at the three hook-H1 sites are pinned to the canonical order in every process (VERIF_ORDER=canon)"}
	if accepted == 0 && c.Replay == "" {
		res.Fatal = "no history reached a metadata comparison"
	}
	return res, nil
}

func init() { Registry["C19"] = c19 }
