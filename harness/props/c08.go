package props

import (
	"fmt"
	"sort"
	"strings"

	"verif/harness/oapi"
	"verif/harness/orch"
	"verif/harness/report"
	"verif/harness/rng"
	"verif/harness/synth"
)

// configProblems compares openapi/info/servers/securitySchemes with the configuration.
func configProblems(doc *oapi.Doc, cfg synth.Config, version string) []oapi.Problem {
	var out []oapi.Problem
	add := func(kind, detail string) { out = append(out, oapi.Problem{Kind: kind, Where: "#", Detail: detail}) }
	if oapi.Str(doc.Raw["openapi"]) != version {
		add("config-openapi-version", fmt.Sprintf("openapi=%v, configured %s", doc.Raw["openapi"], version))
	}
	info := oapi.Obj(doc.Raw["info"])
	cmp := func(field string, got any, want string) {
		if oapi.Str(got) != want {
			add("config-info", fmt.Sprintf("%s=%q, configured %q", field, oapi.Str(got), want))
		}
	}
	cmp("info.title", info["title"], cfg.Title)
	cmp("info.version", info["version"], cfg.Version)
	cmp("info.description", info["description"], cfg.InfoDescr)
	cmp("info.termsOfService", info["termsOfService"], cfg.Terms)
	ct := oapi.Obj(info["contact"])
	cmp("info.contact.name", ct["name"], cfg.ContactName)
	cmp("info.contact.url", ct["url"], cfg.ContactURL)
	cmp("info.contact.email", ct["email"], cfg.ContactEmail)
	lc := oapi.Obj(info["license"])
	cmp("info.license.name", lc["name"], cfg.LicenseName)
	cmp("info.license.url", lc["url"], cfg.LicenseURL)
	servers := oapi.Arr(doc.Raw["servers"])
	if len(servers) != 1 || oapi.Str(oapi.Obj(servers[0])["url"]) != cfg.BaseURL {
		add("config-servers", fmt.Sprintf("servers=%v, configured baseUrl %s", servers, cfg.BaseURL))
	}
	ss := doc.SecuritySchemes()
	if len(ss) != len(cfg.Schemes) {
		add("config-security-schemes", fmt.Sprintf("securitySchemes %v, configured %d schemes", keysOf(ss), len(cfg.Schemes)))
	}
	for _, s := range cfg.Schemes {
		g := oapi.Obj(ss[s.Name])
		if g == nil {
			add("config-security-schemes", "configured scheme "+s.Name+" is missing")
			continue
		}
		if oapi.Str(g["type"]) != s.Type || oapi.Str(g["in"]) != s.In || oapi.Str(g["name"]) != s.FieldName || oapi.Str(g["scheme"]) != s.Scheme || oapi.Str(g["description"]) != s.Description {
			add("config-security-schemes", fmt.Sprintf("scheme %s emitted as %v, configured %+v", s.Name, g, s))
		}
		if oapi.Str(g["openIdConnectUrl"]) != s.OpenIDConnectURL {
			add("config-security-schemes", fmt.Sprintf("scheme %s openIdConnectUrl=%q, configured %q", s.Name, oapi.Str(g["openIdConnectUrl"]), s.OpenIDConnectURL))
		}
		flows := oapi.Obj(g["flows"])
		if len(flows) != len(s.Flows) {
			add("config-security-flows", fmt.Sprintf("scheme %s emits flows %v, configured %d flows", s.Name, keysOf(flows), len(s.Flows)))
		}
		for fn, f := range s.Flows {
			gf := oapi.Obj(flows[fn])
			if gf == nil {
				add("config-security-flows", fmt.Sprintf("scheme %s: configured flow %s is missing", s.Name, fn))
				continue
			}
			if oapi.Str(gf["authorizationUrl"]) != f.AuthorizationURL || oapi.Str(gf["tokenUrl"]) != f.TokenURL || oapi.Str(gf["refreshUrl"]) != f.RefreshURL {
				add("config-security-flows", fmt.Sprintf("scheme %s flow %s urls emitted as %v, configured %+v", s.Name, fn, gf, *f))
			}
			gs := oapi.Obj(gf["scopes"])
			same := len(gs) == len(f.Scopes)
			for k, v := range f.Scopes {
				if oapi.Str(gs[k]) != v {
					same = false
				}
			}
			if !same {
				add("config-security-flows", fmt.Sprintf("scheme %s flow %s scopes emitted as %v, configured %v", s.Name, fn, gs, f.Scopes))
			}
		}
	}
	return out
}

// c08Perturb applies one of the "valid document impossible / at the rejection boundary" edits.
func c08Perturb(p *synth.Project, i int, seed int64) string {
	r := rng.New(seed, "C08-perturb", fmt.Sprint(i))
	type site struct {
		c *synth.Controller
		m *synth.Method
	}
	var sites []site
	for ci := range p.Controllers {
		for mi := range p.Controllers[ci].Methods {
			m := &p.Controllers[ci].Methods[mi]
			if m.IsEndpoint() {
				sites = append(sites, site{&p.Controllers[ci], m})
			}
		}
	}
	if len(sites) == 0 {
		return "none"
	}
	s := sites[r.Intn(len(sites))]
	switch k := i % 9; k {
	case 0: // @Path without {name}
		s.m.Params = append(s.m.Params, synth.Param{GoName: "ghost", Type: synth.Prim("string"), In: "path"})
		p.SetFeature("path-annotation-without-template-param")
		return "path-annotation-without-template-param"
	case 1: // two query parameters under one wire name
		s.m.Params = append(s.m.Params, synth.Param{GoName: "dupa", Type: synth.Prim("string"), In: "query", Wire: "dup"}, synth.Param{GoName: "dupb", Type: synth.Prim("int"), In: "query", Wire: "dup"})
		p.SetFeature("duplicate-wire-name")
		return "duplicate-wire-name"
	case 2: // undeclared scheme (every other time a declared name in another letter case)
		ghost := "ghostScheme"
		if len(p.Config.Schemes) > 0 && r.Intn(2) == 0 {
			d := p.Config.Schemes[r.Intn(len(p.Config.Schemes))].Name
			ghost = strings.ToUpper(d[:1]) + d[1:]
			if ghost == d {
				ghost = strings.ToLower(d)
			}
		}
		s.m.Security = append(s.m.Security, synth.Security{Scheme: ghost, Scopes: []string{"x"}})
		p.SetFeature("undeclared-scheme")
		return "undeclared-scheme"
	case 3: // missing leading slash on the controller
		if len(s.c.Route) > 1 {
			s.c.Route = strings.TrimPrefix(s.c.Route, "/")
		}
		p.SetFeature("no-leading-slash")
		return "no-leading-slash"
	case 4: // string enum whose constants look like other JSON literals
		p.Enums = append(p.Enums, synth.Enum{Name: "Lookalike", Pkg: s.c.Pkg, Base: "string", Values: []synth.EnumConst{{Name: "LookalikeA", Lit: `"true"`, Text: "true"}, {Name: "LookalikeB", Lit: `"12"`, Text: "12"}, {Name: "LookalikeC", Lit: `"x"`, Text: "x"}}})
		s.m.Params = append(s.m.Params, synth.Param{GoName: "look", Type: synth.Named(s.c.Pkg, "Lookalike"), In: "query"})
		p.SetFeature("string-enum-with-literal-lookalikes")
		return "string-enum-with-literal-lookalikes"
	case 5: // a header and a query parameter sharing a wire name (legal: unique per location)
		s.m.Params = append(s.m.Params, synth.Param{GoName: "samea", Type: synth.Prim("string"), In: "query", Wire: "same"}, synth.Param{GoName: "sameb", Type: synth.Prim("string"), In: "header", Wire: "same"})
		return "same-wire-name-different-location"
	case 8: // a route returning an instantiated generic struct (its component is registered under another name)
		if p.ExtraFiles == nil {
			p.ExtraFiles = map[string]string{}
		}
		pkg := p.Pkg(s.c.Pkg)
		p.ExtraFiles[pkg.Dir+"/zz_generic.go"] = "package " + pkg.Name + "\n\nimport (\n\t\"github.com/gopher-fleece/runtime\"\n)\n\ntype Envelope[T any] struct {\n\tV T `json:\"v\"`\n}\n\n// @Tag(Generic)\n// @Route(/generic)\ntype GenericCtl struct {\n\truntime.GleeceController\n}\n\n// @Method(GET)\n// @Route(/envelope)\nfunc (c *GenericCtl) ReadEnvelope() (Envelope[int], error) {\n\treturn Envelope[int]{}, nil\n}\n"
		return "generic-instantiation-as-result"
	case 7: // a header / query parameter that shares its wire name with a path parameter and precedes it (legal)
		w := ""
		for _, pr := range s.m.Params {
			if pr.In == "path" && pr.GoName != "tenant" {
				w = pr.WireName()
			}
		}
		if w == "" {
			s.m.Route += "/{sid}"
			s.m.Params = append(s.m.Params, synth.Param{GoName: "sid", Type: synth.Prim("string"), In: "path"})
			w = "sid"
		}
		in := []string{"header", "query"}[r.Intn(2)]
		if r.Intn(3) == 0 {
			w = strings.ToUpper(w[:1]) + w[1:] // other letter case: still another parameter
		}
		s.m.Params = append([]synth.Param{{GoName: "shadow", Type: synth.Prim("string"), In: in, Wire: w}}, s.m.Params...)
		return "path-wire-name-reused-in-" + in
	case 6: // default security names an undeclared scheme
		p.Config.DefaultSecurity = &synth.Security{Scheme: "ghostDefault", Scopes: []string{}}
		p.SetFeature("undeclared-scheme")
		return "undeclared-default-scheme"
	}
	return "none"
}

func c08(c *orch.Ctx) (*report.Result, error) {
	files := 0
	perturb := map[string]int{}
	problemsByKind := map[string]int{}
	return runSpecProp(c, specProp{
		id: "C08", nQuick: 96, nThorough: 960, floor: 0.3,
		gen: func(cx *orch.Ctx, i int) *synth.Project {
			p := genFromProfile("C08", "fullspec", func(i int, pr *synth.Profile) {
				if i%3 == 0 {
					pr.RouteStyle = "slashy"
				}
			})(cx, i)
			if i%2 == 1 {
				perturb[c08Perturb(p, i/2, cx.Seed)]++
			}
			return p
		},
		rule:   "projects drawn from the 'fullspec' profile; every second project additionally carries one edit aimed at the rejection boundary (@Path without {name}, two parameters under one wire name and location, undeclared scheme on a method / as default, missing leading slash, string enum whose constants look like JSON booleans/numbers, same wire name in two locations). EVERY spec file found at the configured output path after a run (exit status 0 or not) is checked by our own structural validator: $ref closure, path-template <-> required path parameter bijection, unique (name,in), response descriptions, enum value JSON types, and openapi/info/servers/securitySchemes against the configuration. distinct = distinct (perturbation, version, exit status, feature set) combinations observed with a file present",
		assume: []string{"structural rules transcribed from the C08 statement; kin-openapi / libopenapi are deliberately not used as oracle"},
		checkAny: func(res *report.Result, sr *SpecRun, dist *report.Distincter) {
			for _, v := range specVersions {
				vr := sr.Ver[v]
				if vr == nil || vr.SpecRaw == nil {
					continue
				}
				files++
				res.Evaluations++
				dist.Add(v, vr.Accepted, sr.P.FeatureList())
				if vr.DocErr != nil {
					res.AddViolation("spec-not-json", map[string]string{"version": v}, fmt.Sprintf("[%s %s] the file at the output path is not JSON: %v", sr.P.Name, v, vr.DocErr), caseOf(sr.P, map[string]any{"version": v}))
					continue
				}
				probs := append(vr.Doc.Validate(), configProblems(vr.Doc, sr.P.Config, v)...)
				seenKind := map[string]bool{}
				for _, pb := range probs {
					problemsByKind[pb.Kind]++
					if seenKind[pb.Kind] {
						continue
					}
					seenKind[pb.Kind] = true
					where := map[string]string{"version": v}
					for k, f := range pb.Facts {
						where[k] = f
					}
					if pb.Kind == "enum-value-type" {
						// attest the cause, so that a known finding never hides another way of mistyping enum values
						switch {
						case v == "3.0.0" && pb.Facts["value_json_type"] == "string" && pb.Facts["schema_type"] != "string":
							where = map[string]string{"cause": "3.0-non-string-enum-constants-printed-as-json-strings"}
						case v == "3.1.0" && pb.Facts["schema_type"] == "string" && pb.Facts["value_json_type"] != "string" && sr.P.Features["string-enum-with-literal-lookalikes"]:
							where = map[string]string{"cause": "3.1-string-enum-constant-that-looks-like-a-number-or-boolean"}
						default:
							where["cause"] = "other"
						}
					}
					res.AddViolation(pb.Kind, where, fmt.Sprintf("[%s %s exit=%d] %s: %s", sr.P.Name, v, vr.CLI.Exit, pb.Where, pb.Detail), caseOf(sr.P, map[string]any{"version": v}))
				}
				if len(res.Samples) < 2 && vr.Accepted {
					ops := vr.Doc.Operations()
					var ks []string
					for _, o := range ops {
						ks = append(ks, o.Key())
					}
					sort.Strings(ks)
					res.Samples = append(res.Samples, map[string]any{"project": sr.P.Name, "version": v, "operations": ks, "components": keysOf(vr.Doc.Schemas()), "problems": len(probs)})
				}
			}
		},
		finish: func(res *report.Result, runs []*SpecRun) {
			res.Extra("spec_files_checked", files)
			res.Extra("perturbations_applied", perturb)
			res.Extra("structural_problems_by_kind", problemsByKind)
			rejectedWithFile := 0
			for _, sr := range runs {
				for _, vr := range sr.Ver {
					if !vr.Accepted && vr.SpecRaw != nil {
						rejectedWithFile++
					}
				}
			}
			res.Extra("failed_runs_that_left_a_spec_file", rejectedWithFile)
		},
	})
}

func init() { Registry["C08"] = c08 }
