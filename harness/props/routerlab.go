package props

import (
	"bufio"
	"encoding/json"
	"fmt"
	"github.com/iancoleman/strcase"
	"os"
	"os/exec"
	"path/filepath"
	"strings"
	"sync"

	"verif/harness/lab"
	"verif/harness/oapi"
	"verif/harness/orch"
	"verif/harness/synth"
)

// Event mirrors vprobe.Event.
type Event struct {
	Seq      int64             `json:"seq"`
	Ev       string            `json:"ev"`
	Eng      string            `json:"eng"`
	Rid      string            `json:"rid"`
	Ctl      string            `json:"ctl"`
	Method   string            `json:"method"`
	Args     []EvArg           `json:"args"`
	Ctx      string            `json:"ctx"`
	Scheme   string            `json:"scheme"`
	Scopes   []string          `json:"scopes"`
	Decision string            `json:"decision"`
	Status   int               `json:"status"`
	Kind     string            `json:"kind"`
	CType    string            `json:"ctype"`
	Body     string            `json:"body"`
	Hdr      map[string]string `json:"hdr"`
	Detail   string            `json:"detail"`
}

type EvArg struct {
	T string          `json:"t"`
	V json.RawMessage `json:"v"`
}

type Request struct {
	Rid        string            `json:"rid"`
	Verb       string            `json:"verb"`
	Target     string            `json:"target"`
	Headers    map[string]string `json:"headers,omitempty"`
	HeaderList [][2]string       `json:"header_list,omitempty"`
	Body       *string           `json:"body,omitempty"`
	CType      string            `json:"ctype,omitempty"`
}

type Workload struct {
	Requests   []Request `json:"requests"`
	Goroutines int       `json:"goroutines"`
}

type RouterProject struct {
	P         *synth.Project
	Dir       string
	Gen       map[string]lab.CLIResult
	RoutesSrc map[string][]byte
	BuildErr  map[string]string // engine -> compiler output ("" = compiled)
	GofmtDiff map[string]string
	Spec      *oapi.Doc
	Accepted  bool
	Engines   []string // engines whose routes package compiled (accepted projects only)
	probeBin  map[bool]string
	ProbeErr  string
	c         *orch.Ctx
	mu        sync.Mutex
}

type RouterOpts struct {
	Engines      []string
	ValidateResp bool
	TopLevelEnum bool
	EnumValid    bool
}

func goRun(c *orch.Ctx, dir string, timeout int, logPrefix string, args ...string) orch.ProcResult {
	return orch.Run(dir, c.GoEnv, timeout, logPrefix, append([]string{"go"}, args...)...)
}

// BuildRouterProject renders the project with probe bodies, generates the five routes files with the
// real CLI and compiles each generated package separately (a compile failure costs one engine).
func BuildRouterProject(c *orch.Ctx, l *lab.Lab, bin string, p *synth.Project, opts RouterOpts) *RouterProject {
	rp := &RouterProject{P: p, Gen: map[string]lab.CLIResult{}, RoutesSrc: map[string][]byte{}, BuildErr: map[string]string{}, GofmtDiff: map[string]string{}, probeBin: map[bool]string{}, c: c}
	engines := opts.Engines
	if len(engines) == 0 {
		engines = synth.Engines
	}
	if opts.TopLevelEnum {
		ensureAliasEnumNameTwin(p)
	}
	if opts.EnumValid {
		ensureEnumTaggedBody(p)
		// the experimental generated validators are only registered with this option: let model fields of a
		// string enum type use them (tag <snake_case(enum)>_enum)
		for si := range p.Structs {
			for fi := range p.Structs[si].Fields {
				f := &p.Structs[si].Fields[fi]
				if e := p.Enum(f.Type.Pkg, f.Type.Name); f.Type.K == "named" && e != nil && e.Base == "string" && f.Validate == "" && !f.Embedded {
					f.Validate = strcase.ToSnake(e.Name) + "_enum"
					p.SetFeature("generated-enum-validator-tag")
				}
			}
		}
	}
	rd := p.Render(synth.RenderOpts{Body: synth.ProbeBody})
	rd.Files["vprobe/vprobe.go"] = synth.VProbeSource
	for _, e := range engines {
		rd.Files["auth/"+e+"/auth.go"] = synth.AuthSource(p.ModPath, e)
		cfg := p.Config
		cfg.Engine = e
		cfg.RoutesOut = "./routes_" + e + "/gleece.routes.go"
		cfg.PackageName = "routes_" + e
		cfg.AuthPkg = p.ModPath + "/auth/" + e
		cfg.SpecOut = "./dist/openapi-" + e + ".json"
		cfg.ValidateResp = opts.ValidateResp
		cfg.TopLevelEnum = opts.TopLevelEnum
		cfg.EnumValidator = opts.EnumValid
		cfg.SkipDate = true
		rd.Files["cfg-"+e+".json"] = cfg.JSON()
	}
	dir, err := l.Write(p, rd)
	if err != nil {
		panic(err)
	}
	rp.Dir = dir
	var wg sync.WaitGroup
	for i, e := range engines {
		wg.Add(1)
		go func(i int, e string) {
			defer wg.Done()
			cmd := "routes"
			if i == 0 {
				cmd = "spec-and-routes"
			}
			cr := l.Gleece(bin, dir, p.Name+"-"+e, 240, nil, "generate", cmd, "-c", "cfg-"+e+".json", "--no-banner")
			rp.mu.Lock()
			rp.Gen[e] = cr
			rp.mu.Unlock()
		}(i, e)
	}
	wg.Wait()
	if doc, err := oapi.Load(filepath.Join(dir, "dist", "openapi-"+engines[0]+".json")); err == nil {
		rp.Spec = doc
	}
	logs := filepath.Join(c.Work, "logs")
	_ = os.MkdirAll(logs, 0o755)
	for _, e := range engines {
		src, err := os.ReadFile(filepath.Join(dir, "routes_"+e, "gleece.routes.go"))
		if err != nil {
			continue
		}
		rp.RoutesSrc[e] = src
	}
	// compile every generated package (in parallel)
	for _, e := range engines {
		if rp.RoutesSrc[e] == nil {
			continue
		}
		wg.Add(1)
		go func(e string) {
			defer wg.Done()
			pr := goRun(c, dir, 900, filepath.Join(logs, p.Name+"-build-"+e), "build", "./routes_"+e+"/")
			out := strings.TrimSpace(pr.Stdout + pr.Stderr)
			fm := exec.Command("gofmt", "-l", filepath.Join(dir, "routes_"+e, "gleece.routes.go"))
			fm.Env = c.GoEnv
			fmOut, _ := fm.CombinedOutput()
			rp.mu.Lock()
			if pr.Exit != 0 {
				rp.BuildErr[e] = out
				if out == "" {
					rp.BuildErr[e] = fmt.Sprintf("go build exited %d", pr.Exit)
				}
			} else {
				rp.BuildErr[e] = ""
			}
			rp.GofmtDiff[e] = strings.TrimSpace(string(fmOut))
			rp.mu.Unlock()
		}(e)
	}
	wg.Wait()
	// "accepted" = the spec-and-routes run (first engine) exited 0; the routes file is written before
	// the spec is validated, so a rejected project may still leave routes files behind - those are
	// compiled for C09 but never probed
	rp.Accepted = rp.Gen[engines[0]].Exit == 0
	for _, e := range engines {
		if be, ok := rp.BuildErr[e]; ok && be == "" && rp.Accepted && rp.Gen[e].Exit == 0 {
			rp.Engines = append(rp.Engines, e)
		}
	}
	return rp
}

// ProbeBinary builds (once) the driver for the engines that compiled.
func (rp *RouterProject) ProbeBinary(race bool) (string, error) {
	rp.mu.Lock()
	defer rp.mu.Unlock()
	if b, ok := rp.probeBin[race]; ok {
		return b, nil
	}
	if len(rp.Engines) == 0 {
		return "", fmt.Errorf("no generated routes package compiled")
	}
	mainDir := filepath.Join(rp.Dir, "probe")
	_ = os.MkdirAll(mainDir, 0o755)
	if err := os.WriteFile(filepath.Join(mainDir, "main.go"), []byte(synth.ProbeMainSource(rp.P.ModPath, rp.Engines)), 0o644); err != nil {
		return "", err
	}
	name := "probe.bin"
	args := []string{"build"}
	if race {
		name = "probe-race.bin"
		args = append(args, "-race")
	}
	args = append(args, "-o", name, "./probe/")
	pr := goRun(rp.c, rp.Dir, 1800, filepath.Join(rp.c.Work, "logs", rp.P.Name+"-probe-build"), args...)
	if pr.Exit != 0 {
		rp.ProbeErr = strings.TrimSpace(pr.Stdout + pr.Stderr)
		return "", fmt.Errorf("probe build failed: %s", firstLine(rp.ProbeErr))
	}
	b := filepath.Join(rp.Dir, name)
	rp.probeBin[race] = b
	return b, nil
}

type ProbeRun struct {
	Events    []Event
	ByRid     map[string][]Event
	RaceLog   string
	RaceCount int
	Exit      int
	Stderr    string
}

var workloadSeq int
var workloadMu sync.Mutex

// Run replays the workload and parses the trace.
func (rp *RouterProject) Run(wl Workload, race bool) (*ProbeRun, error) {
	bin, err := rp.ProbeBinary(race)
	if err != nil {
		return nil, err
	}
	workloadMu.Lock()
	workloadSeq++
	n := workloadSeq
	workloadMu.Unlock()
	wlPath := filepath.Join(rp.Dir, fmt.Sprintf("workload-%d.json", n))
	trPath := filepath.Join(rp.Dir, fmt.Sprintf("trace-%d.jsonl", n))
	b, _ := json.Marshal(wl)
	if err := os.WriteFile(wlPath, b, 0o644); err != nil {
		return nil, err
	}
	env := append([]string{}, rp.c.GoEnv...)
	raceLog := filepath.Join(rp.Dir, fmt.Sprintf("race-%d", n))
	if race {
		env = append(env, "GORACE=halt_on_error=0 log_path="+raceLog)
	}
	pr := orch.Run(rp.Dir, env, 900, filepath.Join(rp.c.Work, "logs", fmt.Sprintf("%s-probe-%d", rp.P.Name, n)), bin, wlPath, trPath)
	run := &ProbeRun{ByRid: map[string][]Event{}, Exit: pr.Exit, Stderr: pr.Stderr}
	f, err := os.Open(trPath)
	if err != nil {
		return run, fmt.Errorf("no trace written (probe exit %d): %s", pr.Exit, lab.Tail(pr.Stderr, 400))
	}
	defer f.Close()
	sc := bufio.NewScanner(f)
	sc.Buffer(make([]byte, 1<<20), 1<<26)
	for sc.Scan() {
		var ev Event
		if json.Unmarshal(sc.Bytes(), &ev) == nil {
			run.Events = append(run.Events, ev)
			if ev.Rid != "" {
				run.ByRid[ev.Rid] = append(run.ByRid[ev.Rid], ev)
			}
		}
	}
	if race {
		matches, _ := filepath.Glob(raceLog + ".*")
		for _, m := range matches {
			if rb, err := os.ReadFile(m); err == nil {
				run.RaceLog += string(rb)
			}
		}
		run.RaceCount = strings.Count(run.RaceLog, "WARNING: DATA RACE")
	}
	_ = os.Remove(trPath)
	return run, nil
}

func (r *ProbeRun) calls(rid string) []Event {
	var out []Event
	for _, e := range r.ByRid[rid] {
		if e.Ev == "call" {
			out = append(out, e)
		}
	}
	return out
}

func (r *ProbeRun) resp(rid string) *Event {
	for i := range r.ByRid[rid] {
		if r.ByRid[rid][i].Ev == "resp" {
			return &r.ByRid[rid][i]
		}
	}
	return nil
}

func (r *ProbeRun) has(rid, ev string) bool {
	for _, e := range r.ByRid[rid] {
		if e.Ev == ev {
			return true
		}
	}
	return false
}

// raceInGenerated reports data-race blocks whose stacks mention the generated routes packages.
func (r *ProbeRun) raceInGenerated(modPath string) []string {
	var out []string
	for _, blk := range strings.Split(r.RaceLog, "==================") {
		if strings.Contains(blk, "WARNING: DATA RACE") && strings.Contains(blk, "/routes_") {
			lines := strings.Split(strings.TrimSpace(blk), "\n")
			if len(lines) > 14 {
				lines = lines[:14]
			}
			out = append(out, strings.Join(lines, " | "))
		}
	}
	return out
}

// ensureEnumTaggedBody makes sure that a project generated with generateEnumValidator has a request body whose
// model carries a field of a string enum type with awkward constants (R&D, a<b>c, it's).
func ensureEnumTaggedBody(p *synth.Project) {
	var st *synth.Struct
	for i := range p.Structs {
		s := &p.Structs[i]
		if !s.IsError && s.Name != "" && s.Name[0] >= 'A' && s.Name[0] <= 'Z' && (s.Pkg == "ctl" || s.Pkg == "models" || s.Pkg == "shared") {
			st = s
			break
		}
	}
	if st == nil || p.Enum(st.Pkg, "Flavor") != nil {
		return
	}
	for _, f := range st.Fields {
		if f.GoName == "Flavor" {
			return
		}
	}
	// the body parameter first: only then is the shape worth adding
	placed := false
	for ci := range p.Controllers {
		c := &p.Controllers[ci]
		if c.Pkg != "ctl" && c.Pkg != st.Pkg {
			continue
		}
		for mi := range c.Methods {
			m := &c.Methods[mi]
			if !m.IsEndpoint() || placed {
				continue
			}
			hasBody, hasForm := false, false
			for pi := range m.Params {
				if m.Params[pi].In == "body" {
					m.Params[pi].Type, m.Params[pi].Validate = synth.Named(st.Pkg, st.Name), ""
					hasBody, placed = true, true
				}
				if m.Params[pi].In == "form" {
					hasForm = true
				}
			}
			if !hasBody && !hasForm && (m.Verb == "POST" || m.Verb == "PUT" || m.Verb == "PATCH") {
				free := true
				for _, pr := range m.Params {
					if pr.GoName == "payload" {
						free = false
					}
				}
				if free {
					m.Params = append(m.Params, synth.Param{GoName: "payload", In: "body", Type: synth.Named(st.Pkg, st.Name)})
					placed = true
				}
			}
		}
	}
	if !placed {
		return
	}
	p.Enums = append(p.Enums, synth.Enum{Name: "Flavor", Pkg: st.Pkg, Base: "string", Values: []synth.EnumConst{
		{Name: "FlavorRnD", Lit: `"R&D"`, Text: "R&D"}, {Name: "FlavorAngle", Lit: `"a<b>c"`, Text: "a<b>c"}, {Name: "FlavorQuote", Lit: `"it's"`, Text: "it's"}, {Name: "FlavorPlain", Lit: `"plain"`, Text: "plain"}}})
	st.Fields = append(st.Fields, synth.Field{GoName: "Flavor", Type: synth.Named(st.Pkg, "Flavor"), JSONName: "flavor"})
	// two independently validated fields: a request may violate both at once
	st.Fields = append(st.Fields, synth.Field{GoName: "Vmin", Type: synth.Prim("string"), JSONName: "vmin", Validate: "min=3"}, synth.Field{GoName: "Vsmall", Type: synth.Prim("int"), JSONName: "vsmall", Validate: "lte=10"})
	p.SetFeature("body-model-with-awkward-string-enum")
}

// ensureAliasEnumNameTwin: an enum and a constant-less alias that share their type name (different packages),
// both used as top-level query parameters. With validateTopLevelOnlyEnum the enum only accepts its constants
// and the alias accepts anything - whichever of the two is analysed first.
func ensureAliasEnumNameTwin(p *synth.Project) {
	if p.HasFeature("alias-and-enum-share-a-name-across-packages") || len(p.Pkgs) < 2 {
		return
	}
	var en *synth.Enum
	for i := range p.Enums {
		if p.Enums[i].Base == "string" {
			en = &p.Enums[i]
			break
		}
	}
	if en == nil {
		// no string enum in the project: declare one
		home := "ctl"
		if p.Pkg("models") != nil {
			home = "models"
		}
		if p.Enum(home, "Grade") != nil || p.Alias(home, "Grade") != nil || p.Struct(home, "Grade") != nil {
			return
		}
		p.Enums = append(p.Enums, synth.Enum{Name: "Grade", Pkg: home, Base: "string", Values: []synth.EnumConst{{Name: "GradeLow", Lit: `"low"`, Text: "low"}, {Name: "GradeMid", Lit: `"mid"`, Text: "mid"}, {Name: "GradeHigh", Lit: `"high"`, Text: "high"}}})
		en = &p.Enums[len(p.Enums)-1]
	}
	other := ""
	for _, pk := range p.Pkgs {
		if pk.Key != en.Pkg && (pk.Key == "models" || pk.Key == "shared" || pk.Key == "ctl") && p.Alias(pk.Key, en.Name) == nil && p.Enum(pk.Key, en.Name) == nil && p.Struct(pk.Key, en.Name) == nil {
			other = pk.Key
			if pk.Key != "ctl" {
				break
			}
		}
	}
	if other == "" {
		return
	}
	type site struct{ ci, mi int }
	var forAlias, forEnum []site
	for ci := range p.Controllers {
		for mi := range p.Controllers[ci].Methods {
			m := &p.Controllers[ci].Methods[mi]
			free := m.IsEndpoint()
			for _, pr := range m.Params {
				if pr.GoName == "lvl" {
					free = false
				}
			}
			if !free {
				continue
			}
			if synth.Visible(p.Controllers[ci].Pkg, other) {
				forAlias = append(forAlias, site{ci, mi})
			}
			if synth.Visible(p.Controllers[ci].Pkg, en.Pkg) {
				forEnum = append(forEnum, site{ci, mi})
			}
		}
	}
	if len(forAlias) == 0 || len(forEnum) == 0 {
		return
	}
	// the same method carries both (alias first), another route carries the enum alone: whatever the analysis
	// remembers per type NAME is then shared between the two declarations
	var both *site
	for i := range forAlias {
		for j := range forEnum {
			if forAlias[i] == forEnum[j] && both == nil {
				s := forAlias[i]
				both = &s
			}
		}
	}
	if both == nil {
		return
	}
	p.Aliases = append(p.Aliases, synth.Alias{Name: en.Name, Pkg: other, Base: "string"})
	m := &p.Controllers[both.ci].Methods[both.mi]
	m.Params = append(m.Params, synth.Param{GoName: "lvlA", In: "query", Type: synth.Named(other, en.Name)}, synth.Param{GoName: "lvl", In: "query", Type: synth.Named(en.Pkg, en.Name)})
	for _, s := range forEnum {
		if s != *both {
			m2 := &p.Controllers[s.ci].Methods[s.mi]
			m2.Params = append(m2.Params, synth.Param{GoName: "lvl", In: "query", Type: synth.Named(en.Pkg, en.Name)})
			break
		}
	}
	p.SetFeature("alias-and-enum-share-a-name-across-packages")
}
