package props

import (
	"fmt"
	"math/rand"
	"strings"

	"verif/harness/synth"
)

// zooSnippet: a compilable controller fragment containing a construct gleece may not support.
type zooSnippet struct {
	Name    string
	Imports []string
	Decls   string // supporting declarations
	Method  string // full method (comment + func) on *ZooCtl; %N is replaced by a unique suffix
}

var zoo = []zooSnippet{
	{Name: "generic-declared-args", Decls: "type Box%N[T any] struct {\n\tV T `json:\"v\"`\n}\n",
		Method: "// @Method(GET)\n// @Route(/zoo%N)\nfunc (c *ZooCtl) M%N() (Box%N[string], error) {\n\treturn Box%N[string]{}, nil\n}\n"},
	{Name: "nested-generic", Decls: "type Pair%N[A any, B any] struct {\n\tL A `json:\"l\"`\n\tR B `json:\"r\"`\n}\n",
		Method: "// @Method(GET)\n// @Route(/zoo%N)\nfunc (c *ZooCtl) M%N() (Pair%N[Pair%N[int, string], []bool], error) {\n\treturn Pair%N[Pair%N[int, string], []bool]{}, nil\n}\n"},
	{Name: "recursive-generic", Decls: "type Tree%N[T any] struct {\n\tVal  T `json:\"val\"`\n\tKids []Tree%N[T] `json:\"kids\"`\n}\n",
		Method: "// @Method(GET)\n// @Route(/zoo%N)\nfunc (c *ZooCtl) M%N() (Tree%N[int], error) {\n\treturn Tree%N[int]{}, nil\n}\n"},
	{Name: "inline-struct-body",
		Method: "// @Method(POST)\n// @Route(/zoo%N)\n// @Body(body)\nfunc (c *ZooCtl) M%N(body struct {\n\tA string `json:\"a\"`\n}) error {\n\treturn nil\n}\n"},
	{Name: "inline-struct-result",
		Method: "// @Method(GET)\n// @Route(/zoo%N)\nfunc (c *ZooCtl) M%N() (struct{ A int }, error) {\n\treturn struct{ A int }{}, nil\n}\n"},
	{Name: "func-param",
		Method: "// @Method(GET)\n// @Route(/zoo%N)\n// @Query(cb)\nfunc (c *ZooCtl) M%N(cb func(int) string) error {\n\treturn nil\n}\n"},
	{Name: "chan-result",
		Method: "// @Method(GET)\n// @Route(/zoo%N)\nfunc (c *ZooCtl) M%N() (chan int, error) {\n\treturn nil, nil\n}\n"},
	{Name: "interface-result", Decls: "type Shape%N interface {\n\tArea() float64\n}\n",
		Method: "// @Method(GET)\n// @Route(/zoo%N)\nfunc (c *ZooCtl) M%N() (Shape%N, error) {\n\treturn nil, nil\n}\n"},
	{Name: "empty-interface-param",
		Method: "// @Method(POST)\n// @Route(/zoo%N)\n// @Body(b)\nfunc (c *ZooCtl) M%N(b interface{}) error {\n\treturn nil\n}\n"},
	{Name: "any-query-param",
		Method: "// @Method(GET)\n// @Route(/zoo%N)\n// @Query(q)\nfunc (c *ZooCtl) M%N(q any) error {\n\treturn nil\n}\n"},
	{Name: "fixed-array-result",
		Method: "// @Method(GET)\n// @Route(/zoo%N)\nfunc (c *ZooCtl) M%N() ([3]int, error) {\n\treturn [3]int{}, nil\n}\n"},
	{Name: "array-of-arrays-field", Decls: "type Grid%N struct {\n\tCells [2][2]string `json:\"cells\"`\n}\n",
		Method: "// @Method(GET)\n// @Route(/zoo%N)\nfunc (c *ZooCtl) M%N() (Grid%N, error) {\n\treturn Grid%N{}, nil\n}\n"},
	{Name: "mutually-recursive-structs", Decls: "type Ping%N struct {\n\tPong *Pong%N `json:\"pong\"`\n}\n\ntype Pong%N struct {\n\tPing *Ping%N `json:\"ping\"`\n\tAll  []Ping%N `json:\"all\"`\n}\n",
		Method: "// @Method(GET)\n// @Route(/zoo%N)\nfunc (c *ZooCtl) M%N() (Ping%N, error) {\n\treturn Ping%N{}, nil\n}\n"},
	{Name: "recursive-through-embedded-pointer", Decls: "type Node%N struct {\n\t*Meta%N\n\tName string `json:\"name\"`\n}\n\ntype Meta%N struct {\n\tNodes []Node%N `json:\"nodes\"`\n}\n",
		Method: "// @Method(POST)\n// @Route(/zoo%N)\n// @Body(b)\nfunc (c *ZooCtl) M%N(b Node%N) (*Meta%N, error) {\n\treturn nil, nil\n}\n"},
	{Name: "recursive-through-map", Decls: "type Dir%N struct {\n\tSub map[string]Dir%N `json:\"sub\"`\n}\n",
		Method: "// @Method(GET)\n// @Route(/zoo%N)\nfunc (c *ZooCtl) M%N() (Dir%N, error) {\n\treturn Dir%N{}, nil\n}\n"},
	{Name: "alias-chain-assigned", Decls: "type Ax%N = Bx%N\ntype Bx%N = Cx%N\ntype Cx%N = string\n",
		Method: "// @Method(GET)\n// @Route(/zoo%N)\n// @Query(q)\nfunc (c *ZooCtl) M%N(q Ax%N) error {\n\treturn nil\n}\n"},
	{Name: "typedef-chain", Decls: "type Ay%N By%N\ntype By%N Cy%N\ntype Cy%N int\n",
		Method: "// @Method(GET)\n// @Route(/zoo%N)\n// @Query(q)\nfunc (c *ZooCtl) M%N(q Ay%N) (By%N, error) {\n\treturn 0, nil\n}\n"},
	{Name: "alias-of-struct", Decls: "type Real%N struct {\n\tA string `json:\"a\"`\n}\ntype Nick%N = Real%N\ntype Twin%N Real%N\n",
		Method: "// @Method(POST)\n// @Route(/zoo%N)\n// @Body(b)\nfunc (c *ZooCtl) M%N(b Nick%N) (Twin%N, error) {\n\treturn Twin%N{}, nil\n}\n"},
	{Name: "alias-of-slice-and-map", Decls: "type Names%N []string\ntype Index%N map[string]int\n",
		Method: "// @Method(POST)\n// @Route(/zoo%N)\n// @Body(b)\nfunc (c *ZooCtl) M%N(b Names%N) (Index%N, error) {\n\treturn nil, nil\n}\n"},
	{Name: "anonymous-params",
		Method: "// @Method(GET)\n// @Route(/zoo%N)\n// @Query(a)\nfunc (c *ZooCtl) M%N(string, int) error {\n\treturn nil\n}\n"},
	{Name: "blank-params",
		Method: "// @Method(GET)\n// @Route(/zoo%N)\n// @Query(_)\nfunc (c *ZooCtl) M%N(_ string) error {\n\treturn nil\n}\n"},
	{Name: "variadic-param",
		Method: "// @Method(GET)\n// @Route(/zoo%N)\n// @Query(ids)\nfunc (c *ZooCtl) M%N(ids ...string) error {\n\treturn nil\n}\n"},
	{Name: "named-results",
		Method: "// @Method(GET)\n// @Route(/zoo%N)\nfunc (c *ZooCtl) M%N() (res string, err error) {\n\treturn \"\", nil\n}\n"},
	{Name: "grouped-named-results",
		Method: "// @Method(GET)\n// @Route(/zoo%N)\nfunc (c *ZooCtl) M%N() (a, b string, err error) {\n\treturn \"\", \"\", nil\n}\n"},
	{Name: "value-receiver",
		Method: "// @Method(GET)\n// @Route(/zoo%N)\nfunc (c ZooCtl) M%N() error {\n\treturn nil\n}\n"},
	{Name: "receiver-without-name",
		Method: "// @Method(GET)\n// @Route(/zoo%N)\nfunc (*ZooCtl) M%N() error {\n\treturn nil\n}\n"},
	{Name: "grouped-params",
		Method: "// @Method(GET)\n// @Route(/zoo%N)\n// @Query(a)\n// @Query(b)\nfunc (c *ZooCtl) M%N(a, b string) error {\n\treturn nil\n}\n"},
	{Name: "pointer-to-pointer",
		Method: "// @Method(GET)\n// @Route(/zoo%N)\n// @Query(q)\nfunc (c *ZooCtl) M%N(q **string) (**int, error) {\n\treturn nil, nil\n}\n"},
	{Name: "pointer-to-slice-of-pointers", Decls: "type Leaf%N struct {\n\tA int `json:\"a\"`\n}\n",
		Method: "// @Method(GET)\n// @Route(/zoo%N)\nfunc (c *ZooCtl) M%N() (*[]*Leaf%N, error) {\n\treturn nil, nil\n}\n"},
	{Name: "map-of-slices-of-structs-body", Decls: "type Cell%N struct {\n\tA int `json:\"a\"`\n}\n",
		Method: "// @Method(POST)\n// @Route(/zoo%N)\n// @Body(b)\nfunc (c *ZooCtl) M%N(b map[string][]Cell%N) (map[int]string, error) {\n\treturn nil, nil\n}\n"},
	{Name: "struct-embedding-interfaces", Imports: []string{"fmt"}, Decls: "type Emb%N struct {\n\terror\n\tfmt.Stringer\n\tA int `json:\"a\"`\n}\n",
		Method: "// @Method(GET)\n// @Route(/zoo%N)\nfunc (c *ZooCtl) M%N() (string, Emb%N) {\n\treturn \"\", Emb%N{}\n}\n"},
	{Name: "struct-with-func-and-chan-fields", Decls: "type Odd%N struct {\n\tF func() `json:\"-\"`\n\tC chan int `json:\"c\"`\n\tG func(int) error `json:\"g\"`\n}\n",
		Method: "// @Method(GET)\n// @Route(/zoo%N)\nfunc (c *ZooCtl) M%N() (Odd%N, error) {\n\treturn Odd%N{}, nil\n}\n"},
	{Name: "error-first-result",
		Method: "// @Method(GET)\n// @Route(/zoo%N)\nfunc (c *ZooCtl) M%N() (error, string) {\n\treturn nil, \"\"\n}\n"},
	{Name: "error-as-param",
		Method: "// @Method(GET)\n// @Route(/zoo%N)\n// @Query(e)\nfunc (c *ZooCtl) M%N(e error) error {\n\treturn nil\n}\n"},
	{Name: "stdlib-types", Imports: []string{"net/url", "time"},
		Method: "// @Method(POST)\n// @Route(/zoo%N)\n// @Body(u)\n// @Query(d)\nfunc (c *ZooCtl) M%N(u url.URL, d time.Duration) (time.Month, error) {\n\treturn 0, nil\n}\n"},
	{Name: "exotic-primitives",
		Method: "// @Method(GET)\n// @Route(/zoo%N)\n// @Query(a)\n// @Query(b)\n// @Query(r)\n// @Query(p)\n// @Query(bs)\nfunc (c *ZooCtl) M%N(a complex128, b byte, r rune, p uintptr, bs []byte) (complex64, error) {\n\treturn 0, nil\n}\n"},
	{Name: "enum-with-iota", Decls: "type Phase%N int\n\nconst (\n\tPhaseA%N Phase%N = iota\n\tPhaseB%N\n\tPhaseC%N\n)\n",
		Method: "// @Method(GET)\n// @Route(/zoo%N)\n// @Query(p)\nfunc (c *ZooCtl) M%N(p Phase%N) ([]Phase%N, error) {\n\treturn nil, nil\n}\n"},
	{Name: "enum-with-expression-constants", Decls: "type Bits%N uint8\n\nconst (\n\tBitA%N Bits%N = 1 << iota\n\tBitB%N\n\tBitAB%N = BitA%N | BitB%N\n)\n\nconst LooseBit%N = Bits%N(64)\n",
		Method: "// @Method(GET)\n// @Route(/zoo%N)\n// @Query(p)\nfunc (c *ZooCtl) M%N(p Bits%N) error {\n\treturn nil\n}\n"},
	{Name: "unexported-annotated-method",
		Method: "// @Method(GET)\n// @Route(/zoo%N)\nfunc (c *ZooCtl) m%N() error {\n\treturn nil\n}\n\nvar _ = (*ZooCtl).m%N\n"},
	{Name: "annotated-method-of-plain-type", Decls: "type Plain%N struct{}\n",
		Method: "// @Method(GET)\n// @Route(/zoo%N)\nfunc (c *Plain%N) M%N() error {\n\treturn nil\n}\n"},
	{Name: "annotated-plain-function",
		Method: "// @Method(GET)\n// @Route(/zoo%N)\nfunc F%N() error {\n\treturn nil\n}\n"},
	{Name: "struct-field-of-anonymous-struct", Decls: "type Host%N struct {\n\tInner struct {\n\t\tA int `json:\"a\"`\n\t\tB []struct{ C string } `json:\"b\"`\n\t} `json:\"inner\"`\n}\n",
		Method: "// @Method(GET)\n// @Route(/zoo%N)\nfunc (c *ZooCtl) M%N() (Host%N, error) {\n\treturn Host%N{}, nil\n}\n"},
	{Name: "generic-controller-method-arg", Decls: "type Opt%N[T comparable] struct {\n\tV *T `json:\"v\"`\n}\n",
		Method: "// @Method(POST)\n// @Route(/zoo%N)\n// @Body(b)\nfunc (c *ZooCtl) M%N(b Opt%N[int]) (*Opt%N[string], error) {\n\treturn nil, nil\n}\n"},
	{Name: "context-twice", Imports: []string{"context"},
		Method: "// @Method(GET)\n// @Route(/zoo%N)\nfunc (c *ZooCtl) M%N(a context.Context, b context.Context) error {\n\treturn nil\n}\n"},
	{Name: "generic-unexported-field-first", Decls: "type HBox%N[T any] struct {\n\thidden int\n\tV      T `json:\"v\"`\n}\n",
		Method: "// @Method(GET)\n// @Route(/zoo%N)\nfunc (c *ZooCtl) M%N() (HBox%N[string], error) {\n\treturn HBox%N[string]{}, nil\n}\n"},
	{Name: "generic-json-dash-field-first", Decls: "type DBox%N[A any, B any] struct {\n\tSkip A `json:\"-\"`\n\tL    A `json:\"l\"`\n\tskip B\n\tR    B `json:\"r\"`\n}\n",
		Method: "// @Method(POST)\n// @Route(/zoo%N)\n// @Body(b)\nfunc (c *ZooCtl) M%N(b DBox%N[int, string]) (DBox%N[bool, int], error) {\n\treturn DBox%N[bool, int]{}, nil\n}\n"},
	{Name: "generic-only-hidden-fields", Decls: "type NBox%N[T any] struct {\n\tv T\n}\n",
		Method: "// @Method(GET)\n// @Route(/zoo%N)\nfunc (c *ZooCtl) M%N() (NBox%N[string], error) {\n\treturn NBox%N[string]{}, nil\n}\n"},
	{Name: "generic-embedded-param-struct", Decls: "type EBase%N struct {\n\tID int `json:\"id\"`\n}\n\ntype EBox%N[T any] struct {\n\tEBase%N\n\tV T `json:\"v\"`\n}\n",
		Method: "// @Method(GET)\n// @Route(/zoo%N)\nfunc (c *ZooCtl) M%N() (EBox%N[string], error) {\n\treturn EBox%N[string]{}, nil\n}\n"},
	{Name: "array-length-named-constant", Decls: "const DigestSize%N = 4\n\ntype Digest%N struct {\n\tSum [DigestSize%N]int `json:\"sum\"`\n}\n",
		Method: "// @Method(GET)\n// @Route(/zoo%N)\nfunc (c *ZooCtl) M%N() (Digest%N, error) {\n\treturn Digest%N{}, nil\n}\n"},
	{Name: "array-length-expression", Decls: "const Half%N = 2\n\ntype Wide%N struct {\n\tSum [2 * Half%N]byte `json:\"sum\"`\n\tP   [(4)]int       `json:\"p\"`\n\tH   [0x4]int       `json:\"h\"`\n}\n",
		Method: "// @Method(POST)\n// @Route(/zoo%N)\n// @Body(b)\nfunc (c *ZooCtl) M%N(b Wide%N) ([2 * Half%N]string, error) {\n\treturn [2 * Half%N]string{}, nil\n}\n"},
	{Name: "array-query-parameter",
		Method: "// @Method(GET)\n// @Route(/zoo%N)\n// @Query(ids)\nfunc (c *ZooCtl) M%N(ids [3]int) error {\n\treturn nil\n}\n"},
	{Name: "enum-constants-in-one-multi-name-spec", Decls: "type Hue%N string\n\nconst Red%N, Green%N Hue%N = \"red\", \"green\"\n\nconst (\n\tBlue%N, Teal%N Hue%N = \"blue\", \"teal\"\n\tGrey%N        Hue%N = \"grey\"\n)\n",
		Method: "// @Method(GET)\n// @Route(/zoo%N)\n// @Query(h)\nfunc (c *ZooCtl) M%N(h Hue%N) (Hue%N, error) {\n\treturn h, nil\n}\n"},
	{Name: "enum-constants-iota-and-expressions", Decls: "type Lvl%N int\n\nconst (\n\tLow%N Lvl%N = iota\n\tMid%N\n\tHigh%N = Lvl%N(10 + 2*3)\n\t_\n\tTop%N Lvl%N = 1 << 40\n)\n",
		Method: "// @Method(GET)\n// @Route(/zoo%N)\n// @Query(l)\nfunc (c *ZooCtl) M%N(l Lvl%N) (Lvl%N, error) {\n\treturn l, nil\n}\n"},
	{Name: "many-results",
		Method: "// @Method(GET)\n// @Route(/zoo%N)\nfunc (c *ZooCtl) M%N() (int, string, bool, error) {\n\treturn 0, \"\", false, nil\n}\n"},
}

func renderZoo(pkgName string, picks []int) string {
	imports := map[string]bool{"github.com/gopher-fleece/runtime": true}
	var decls, methods strings.Builder
	for i, k := range picks {
		sn := zoo[k]
		for _, im := range sn.Imports {
			imports[im] = true
		}
		suffix := fmt.Sprint(i)
		decls.WriteString(strings.ReplaceAll(sn.Decls, "%N", suffix))
		decls.WriteString("\n")
		methods.WriteString(strings.ReplaceAll(sn.Method, "%N", suffix))
		methods.WriteString("\n")
	}
	var sb strings.Builder
	sb.WriteString("package " + pkgName + "\n\nimport (\n")
	for im := range imports {
		sb.WriteString("\t\"" + im + "\"\n")
	}
	sb.WriteString(")\n\n// @Tag(Zoo)\n// @Route(/zoo)\ntype ZooCtl struct {\n\truntime.GleeceController\n}\n\n")
	sb.WriteString(decls.String())
	sb.WriteString(methods.String())
	return sb.String()
}

// ---- grammar 2: malformed annotation lines ----

var badAnnotations = []string{
	"// @Query(", "// @Query(a, {)", "// @Query(a, {name:})", `// @Query(a, {name:"x")`, `// @Query(a, {"name":"\u12"})`,
	`// @Security(s, {scopes: "notarray"})`, "// @Security(s, {scopes: [1,2]})", "// @Security(, {})", "// @Security(s, {scopes:[null]})", "// @Security(s, {scopes:{}})",
	"// @Route()", "// @Method()", "// @Method", "// @Route", "// @Response({})", "// @Query(a, {name: {deep:{deep:{deep:1}}}})", "// @Path(a, {name: 5})",
	"// @Query(a, {validate: 7})", "// @Query(a, {name: null})", "// @Query(a, {name: []})", "// @TemplateContext(x, {a:[1,{b:[]}]})", "// @TemplateContext(x, {a:1})\n// @TemplateContext(x, {a:2})",
	"// @Hidden(x, {})", "// @ErrorResponse(99999999999999999999)", "// @Response(-1)", "// @ErrorResponse(0)", "// @Response(200)\n// @Response(201)", "// @ErrorResponse(404)\n// @ErrorResponse(404)",
	"// @Method(GET, {x:1})", "// @Method(POST)", "// @Route(/other)", "// @Description", "// @Description a\n// @Description b", "// @Deprecated(x, {y:1}) why",
	"// @Query(a, {name:'x', name:'y'})", "// @Query(a, {name:'\\'})", "// @Query(a, {name:\"\\x\"})", "// @Body(q)", "// @FormField(q)", "// @Header(q, {name:''})",
	"// @Query(q, {validate:'required,,min=1'})", "// @Query(q, {validate:',,,'})", "// @Query(q, {validate:'min'})", "// @Query(q, {validate:'oneof='})",
	"// @Path(q)", "// @Path()", "// @Path({q})", "// @Query(q q)", "// @Query(q) \x01\x02 control", "// @Query(q, {a:1e999})", "// @Query(q, {a:0x})", "// @Query(q, {a:+Infinity, b:NaN})",
	"// @Query(q, " + strings.Repeat("{a:", 120) + "1" + strings.Repeat("}", 120) + ")", "// @Query(q, {a:" + strings.Repeat("[", 300) + strings.Repeat("]", 300) + "})",
	"// @Query(q, {name:\"" + strings.Repeat("x", 5000) + "\"})", "// @Tag(x)", "// @Foo", "// @(x)", "// @@Query(q)", "//@Query(q)",
}

// every annotation x property x ill-typed JSON5 value
var annHeads = []string{"Query(q", "Header(q", "Path(q", "Body(q", "FormField(q", "Security(apiKeyAuth", "Method(GET", "Route(/anntarget", "Response(200", "ErrorResponse(400", "Deprecated(x", "Hidden(x", "TemplateContext(x", "Description(x"}
var annProps = []string{"name", "validate", "scopes", "description", "mode", "value"}
var annValues = []string{"null", "7", "1.5", "true", `"text"`, "[]", "[null]", "[1]", `["a", null]`, "{}", "{a: null}", `[["a"]]`, "undefined", "-0"}

// annotationMatrix lists the ill-typed property cases: pairs the parser gives a meaning to are always
// included, the rest of the product is sampled 1 in 6 (by seed) in the quick tier.
func annotationMatrix(seed int64, full bool) (method []string, controller []string) {
	known := map[string]bool{"Security(apiKeyAuth/scopes": true}
	for _, h := range []string{"Query(q", "Header(q", "Path(q", "Body(q", "FormField(q"} {
		known[h+"/name"], known[h+"/validate"] = true, true
	}
	i := 0
	for _, h := range annHeads {
		for _, pr := range annProps {
			for _, v := range annValues {
				i++
				if full || known[h+"/"+pr] || (int64(i)+seed)%6 == 0 {
					method = append(method, "// @"+h+", {"+pr+": "+v+"})")
				}
			}
		}
	}
	for _, pr := range annProps {
		for _, v := range annValues {
			i++
			if full || pr == "scopes" || (int64(i)+seed)%6 == 0 {
				controller = append(controller, "// @Security(apiKeyAuth, {"+pr+": "+v+"})")
			}
			if full || (int64(i)+seed)%6 == 1 {
				controller = append(controller, "// @Route(/x, {"+pr+": "+v+"})", "// @Tag(T, {"+pr+": "+v+"})")
			}
		}
	}
	return
}

// lines put in FRONT of a method's doc block (free text that is empty, blank or odd)
var leadLineSets = [][]string{{"//"}, {"//", "//"}, {"// "}, {"//\t"}, {"//", "// text", "//"}, {"//", "// @Description"}, {"// \u00a0"}, {"//", "//", "// @Description x", "//"}}

var badControllerAnnotations = []string{
	"// @Route({)", "// @Tag()", "// @Security(x, {scopes:[null]})", "// @Route(/a)\n// @Route(/b)", "// @Tag(A)\n// @Tag(B)", "// @Method(GET)", "// @Route(/x, {a:1})",
	"// @Security(apiKeyAuth, {scopes:'x'})", "// @Description", "// @Route(" + strings.Repeat("/{p}", 40) + ")", "// @Security()", "// @Hidden",
}

// ---- grammar 3: validator tag strings ----

var ruleNames = []string{"email", "uuid", "ip", "ipv4", "ipv6", "hostname", "date", "datetime", "gt", "gte", "lt", "lte", "min", "max", "len", "pattern", "minItems", "maxItems", "uniqueItems", "enum", "oneof", "required"}
var ruleValues = []string{"", "=", "=abc", "=-1", "=1.5", "=99999999999999999999", "=١٢", "=a=b", "= ", "=0x10", "=1e3", "=true", "=|", "=a|", "=NaN"}
var tagFieldTypes = []string{"string", "int", "uint8", "float64", "bool", "[]string", "[]int", "*int", "*string", "map[string]int", "TagEnum", "TagStruct", "[]TagStruct", "any", "time.Time", "[]byte"}

func randomRawTag(r *rand.Rand) string {
	alphabet := []string{"required", "min", "max", "=", ",", "|", " ", "oneof", "1", "-", "x", "é", "len", "gt", "dive", "omitempty", "'", "\\\\", "%", "{", "}"}
	n := 1 + r.Intn(8)
	var sb strings.Builder
	for i := 0; i < n; i++ {
		sb.WriteString(alphabet[r.Intn(len(alphabet))])
	}
	return sb.String()
}

func renderTagTypes(pkgName string, fields []string) string {
	var sb strings.Builder
	sb.WriteString("package " + pkgName + "\n\nimport (\n\t\"time\"\n)\n\nvar _ = time.Now\n\n")
	sb.WriteString("type TagEnum string\n\nconst (\n\tTagEnumA TagEnum = \"a\"\n\tTagEnumB TagEnum = \"b\"\n)\n\n")
	sb.WriteString("type TagStruct struct {\n\tX int `json:\"x\"`\n}\n\n")
	sb.WriteString("type TagHost struct {\n")
	for i, f := range fields {
		sb.WriteString(fmt.Sprintf("\tF%d %s\n", i, f))
	}
	sb.WriteString("}\n")
	return sb.String()
}

// c14Case is one process to run.
type c14Case struct {
	Grammar  string            `json:"grammar"`
	Label    string            `json:"label"`
	Project  *synth.Project    `json:"project,omitempty"`
	Files    map[string]string `json:"files,omitempty"` // extra files written verbatim (relative to the project dir)
	Argv     []string          `json:"argv"`
	Promised []string          `json:"promised,omitempty"` // files that must exist after exit 0
	RawCfg   string            `json:"raw_cfg,omitempty"`  // replaces gleece.config.json
}
