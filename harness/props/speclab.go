// Package props holds one monitor per property that needs the CLI labs.
package props

import (
	"fmt"
	"os"
	"path/filepath"
	"strings"
	"sync"

	"verif/harness/lab"
	"verif/harness/oapi"
	"verif/harness/orch"
	"verif/harness/report"
	"verif/harness/synth"
)

type VerRun struct {
	Version  string
	CLI      lab.CLIResult
	Doc      *oapi.Doc
	DocErr   error
	SpecPath string
	SpecRaw  []byte
	Accepted bool // exit status 0
	Crash    string
}

type SpecRun struct {
	P   *synth.Project
	Dir string
	Ver map[string]*VerRun
}

func (s *SpecRun) AcceptedAll() bool {
	for _, v := range s.Ver {
		if !v.Accepted || v.Doc == nil {
			return false
		}
	}
	return len(s.Ver) > 0
}

var specVersions = []string{"3.0.0", "3.1.0"}

// RunSpecLab renders every project and runs `gleece generate <cmd>` once per OpenAPI version.
func RunSpecLab(c *orch.Ctx, l *lab.Lab, bin string, projects []*synth.Project, versions []string, cmd string) []*SpecRun {
	out := make([]*SpecRun, len(projects))
	var mu sync.Mutex
	orch.ParallelMap(len(projects), c.Parallel, func(i int) {
		p := projects[i]
		r := p.Render(synth.RenderOpts{})
		sr := &SpecRun{P: p, Ver: map[string]*VerRun{}}
		for _, v := range versions {
			cfg := p.Config
			cfg.OpenAPI = v
			tag := strings.ReplaceAll(v, ".", "")
			cfg.SpecOut = "./dist/openapi" + tag + ".json"
			cfg.RoutesOut = "./dist/routes" + tag + "/gleece.routes.go"
			r.Files["gleece.config."+tag+".json"] = cfg.JSON()
		}
		dir, err := l.Write(p, r)
		if err != nil {
			panic(err)
		}
		sr.Dir = dir
		for _, v := range versions {
			tag := strings.ReplaceAll(v, ".", "")
			vr := &VerRun{Version: v, SpecPath: filepath.Join(dir, "dist", "openapi"+tag+".json")}
			// every other project is generated over the (much longer) outputs of an "earlier generation":
			// whatever the run leaves at the output path must still be a whole, valid document
			var stale []byte
			if i%2 == 1 {
				stale = []byte(`{"stale_output_of_an_earlier_generation": "` + strings.Repeat("x", 1<<18) + `"}` + "\n")
				_ = os.MkdirAll(filepath.Dir(vr.SpecPath), 0o755)
				_ = os.WriteFile(vr.SpecPath, stale, 0o644)
				rp := filepath.Join(dir, "dist", "routes"+tag, "gleece.routes.go")
				_ = os.MkdirAll(filepath.Dir(rp), 0o755)
				_ = os.WriteFile(rp, []byte("package stale\n\n// "+strings.Repeat("stale ", 1<<15)+"\n"), 0o644)
			}
			vr.CLI = l.Gleece(bin, dir, p.Name+"-"+tag, 180, nil, "generate", cmd, "-c", "gleece.config."+tag+".json", "--no-banner")
			vr.Accepted = vr.CLI.Exit == 0
			vr.Crash = lab.Classify(vr.CLI.ProcResult)
			if b, err := os.ReadFile(vr.SpecPath); err == nil && (stale == nil || string(b) != string(stale)) {
				vr.SpecRaw = b
				vr.Doc, vr.DocErr = oapi.Parse(b)
			}
			sr.Ver[v] = vr
		}
		mu.Lock()
		out[i] = sr
		mu.Unlock()
	})
	return out
}

// rejectionReason extracts the first error line of a failed run (for evidence only).
func rejectionReason(cr lab.CLIResult) string {
	t := lab.StripAnsi(cr.Stderr + cr.Stdout)
	lines := strings.Split(t, "\n")
	for i, ln := range lines {
		if strings.HasSuffix(strings.TrimSpace(ln), "Last error:") && i+1 < len(lines) {
			ln = ln + " " + strings.TrimSpace(lines[i+1])
		}
		if (strings.Contains(ln, "[ERROR]") || strings.Contains(ln, "[FATAL]") || strings.Contains(ln, "panic:")) && !strings.Contains(ln, "Unknown type: map") {
			if i := strings.Index(ln, "]"); i > 0 {
				ln = strings.TrimSpace(ln[i+1:])
			}
			if len(ln) > 260 {
				ln = ln[:260]
			}
			return ln
		}
	}
	return fmt.Sprintf("exit %d", cr.Exit)
}

// acceptanceFloor: a lab whose projects are mostly rejected has observed nothing.
func acceptanceFloor(res *report.Result, accepted, total int, min float64) {
	res.Extra("projects_generated", total)
	res.Extra("projects_accepted", accepted)
	if total == 0 || float64(accepted)/float64(total) < min {
		res.Fatal = fmt.Sprintf("only %d of %d generated projects were accepted by gleece (floor %.0f%%): the lab observed too little", accepted, total, min*100)
	}
}

func caseOf(p *synth.Project, extra map[string]any) map[string]any {
	m := map[string]any{"project": p}
	for k, v := range extra {
		m[k] = v
	}
	return m
}

// Registry maps property ids to monitors.
var Registry = map[string]func(*orch.Ctx) (*report.Result, error){}
