package props

import (
	"bufio"
	"encoding/json"
	"fmt"
	"os"
	"path/filepath"
	"sort"
	"strings"
	"sync"

	"verif/harness/lab"
	"verif/harness/orch"
	"verif/harness/report"
	"verif/harness/rng"
	"verif/harness/synth"
)

type c13Run struct {
	tag    string
	order  string // VERIF_ORDER ("" = hook-free)
	engine string
	skip   bool   // skipGenerateDateComment
	procs  int    // GOMAXPROCS for the child (0 = inherit)
	perms  string // outputFilePerms ("" = as the project says)
	exit   int
	spec   []byte
	routes []byte
	orders map[string][]string // site -> distinct orders observed in the hook trace
}

func readTrace(path string) map[string][]string {
	out := map[string][]string{}
	f, err := os.Open(path)
	if err != nil {
		return out
	}
	defer f.Close()
	seen := map[string]bool{}
	sc := bufio.NewScanner(f)
	sc.Buffer(make([]byte, 1<<20), 1<<24)
	for sc.Scan() {
		var ev struct {
			Ev    string   `json:"ev"`
			Site  string   `json:"site"`
			Order []string `json:"order"`
		}
		if json.Unmarshal(sc.Bytes(), &ev) != nil || ev.Ev != "order" {
			continue
		}
		k := ev.Site + "|" + strings.Join(ev.Order, ",")
		if !seen[k] {
			seen[k] = true
			out[ev.Site] = append(out[ev.Site], strings.Join(ev.Order, ","))
		}
	}
	return out
}

func stripDateLine(b []byte) string {
	var keep []string
	for _, ln := range strings.Split(string(b), "\n") {
		if strings.HasPrefix(strings.TrimSpace(ln), "Generated Date:") {
			continue
		}
		keep = append(keep, ln)
	}
	return strings.Join(keep, "\n")
}

func firstLineDiff(a, b string) string {
	la, lb := strings.Split(a, "\n"), strings.Split(b, "\n")
	for i := 0; i < len(la) && i < len(lb); i++ {
		if la[i] != lb[i] {
			return fmt.Sprintf("line %d: %q vs %q", i+1, strings.TrimSpace(la[i]), strings.TrimSpace(lb[i]))
		}
	}
	return fmt.Sprintf("lengths differ: %d vs %d lines", len(la), len(lb))
}

func factorial(k int) int {
	f := 1
	for i := 2; i <= k; i++ {
		f *= i
	}
	return f
}

func c13(c *orch.Ctx) (*report.Result, error) {
	res := &report.Result{Property: "C13"}
	bin, err := c.CLI()
	if err != nil {
		return nil, err
	}
	l, err := lab.New(c)
	if err != nil {
		return nil, err
	}
	nProj, nFree, nSample := 10, 6, 10
	if !c.Quick() {
		nProj, nFree, nSample = 60, 16, 24
	}
	var projects []*synth.Project
	if c.Replay != "" {
		var rc struct {
			Project *synth.Project `json:"project"`
		}
		if err := loadCase(c.Replay, &rc); err != nil {
			return nil, err
		}
		projects = []*synth.Project{rc.Project}
	} else {
		for i := 0; i < nProj; i++ {
			prof := synth.Profiles["fullspec"]
			prof.MaxControllers, prof.MultiFile, prof.MultiPkg = 4, true, true
			prof.RouteStyle = "clean"
			prof.SameNameTypes = i%3 == 0 // same-named declarations in several packages: ties for any name-keyed ordering
			if i%5 == 4 {
				// few types: about half of these projects have no enum model at all
				prof.ParamTypeLevel, prof.Models = 1, 1
			}
			p := synth.Gen(rng.New(c.Seed, "C13", fmt.Sprint(i)), prof, fmt.Sprintf("p%04d", i), lab.ModPath)
			if i%2 == 1 {
				p.Config.OpenAPI = "3.1.0"
			}
			// the experimental generated enum validators put the enum value lists into the routes file
			p.Config.EnumValidator = i%4 < 2
			// the constants of every other enum are declared in two files of their package
			for ei := range p.Enums {
				if ei%2 == 0 {
					p.Enums[ei].SplitConsts = true
				}
			}
			projects = append(projects, p)
		}
	}
	dist := report.NewDistincter()
	var mu sync.Mutex
	inprocBin, _ := c.Inproc()
	warmIdx := 0
	warmRuns := map[string]int{}
	distinctOrders := map[string]map[string]bool{}
	totalRuns, accepted := 0, 0
	outputsSeen := map[string]int{}

	for _, p := range projects {
		r := p.Render(synth.RenderOpts{})
		dir, err := l.Write(p, r)
		if err != nil {
			return nil, err
		}
		exec := func(run *c13Run) {
			cfg := p.Config
			cfg.Engine = run.engine
			cfg.SkipDate = run.skip
			cfg.SpecOut = "./out-" + run.tag + "/openapi.json"
			cfg.RoutesOut = "./out-" + run.tag + "/routes/gleece.routes.go"
			cfg.AuthPkg = p.ModPath + "/auth/" + run.engine
			if run.perms != "" {
				cfg.Perms = run.perms
			}
			cfgName := "cfg-" + run.tag + ".json"
			_ = os.WriteFile(filepath.Join(dir, cfgName), []byte(cfg.JSON()), 0o644)
			tracePath := filepath.Join(c.Work, "trace-"+p.Name+"-"+run.tag+".jsonl")
			env := []string{"VERIF_TRACE=" + tracePath}
			if run.order != "" {
				env = append(env, "VERIF_ORDER="+run.order)
			}
			if run.procs > 0 {
				env = append(env, fmt.Sprintf("GOMAXPROCS=%d", run.procs))
			}
			cr := l.Gleece(bin, dir, p.Name+"-"+run.tag, 240, env, "generate", "spec-and-routes", "-c", cfgName, "--no-banner")
			run.exit = cr.Exit
			run.spec, _ = os.ReadFile(filepath.Join(dir, "out-"+run.tag, "openapi.json"))
			run.routes, _ = os.ReadFile(filepath.Join(dir, "out-"+run.tag, "routes", "gleece.routes.go"))
			run.orders = readTrace(tracePath)
			_ = os.Remove(tracePath)
		}
		base := &c13Run{tag: "base", order: "canon", engine: "gin", skip: true}
		exec(base)
		totalRuns++
		if base.exit != 0 || base.spec == nil || base.routes == nil {
			res.Inc("project not accepted (vacuous)")
			continue
		}
		accepted++
		// how many elements does each site see?
		sizes := map[string]int{}
		for site, os := range base.orders {
			for _, o := range os {
				if n := len(strings.Split(o, ",")); n > sizes[site] {
					sizes[site] = n
				}
			}
		}
		var runs []*c13Run
		for _, site := range []string{"source-files", "loaded-packages", "find-by-kind"} {
			k := sizes[site]
			if k <= 1 {
				continue
			}
			if k <= 4 {
				for i := 1; i < factorial(k); i++ {
					runs = append(runs, &c13Run{tag: fmt.Sprintf("%s-p%d", site, i), order: fmt.Sprintf("*=canon,%s=p%d", site, i), engine: "gin", skip: true})
				}
			} else {
				for i := 0; i < nSample; i++ {
					runs = append(runs, &c13Run{tag: fmt.Sprintf("%s-s%d", site, i), order: fmt.Sprintf("*=canon,%s=s%d", site, 1000*int(c.Seed)+i), engine: "gin", skip: true})
				}
				runs = append(runs, &c13Run{tag: site + "-rev", order: fmt.Sprintf("*=canon,%s=rev", site), engine: "gin", skip: true})
			}
		}
		for i := 0; i < 6; i++ {
			runs = append(runs, &c13Run{tag: fmt.Sprintf("joint-s%d", i), order: fmt.Sprintf("*=s%d", 77*int(c.Seed)+i), engine: "gin", skip: true})
		}
		for i := 0; i < nFree; i++ {
			runs = append(runs, &c13Run{tag: fmt.Sprintf("free%d", i), order: "", engine: "gin", skip: true, procs: []int{0, 1, 0, 2, 0, 3}[i%6]})
		}
		// scheduling perturbation with the iteration orders pinned: packages.Load parses files concurrently,
		// so anything derived from token positions across files depends on the schedule
		for _, np := range []int{1, 2, 5, 64} {
			runs = append(runs, &c13Run{tag: fmt.Sprintf("sched%d", np), order: "canon", engine: "gin", skip: true, procs: np})
		}
		for _, e := range []string{"echo", "mux", "chi", "fiber"} {
			runs = append(runs, &c13Run{tag: "eng-" + e, order: "canon", engine: e, skip: true})
		}
		runs = append(runs, &c13Run{tag: "dated", order: "canon", engine: "gin", skip: false})
		// the same generation into a USED output directory: an equivalent but re-indented spec and a longer
		// routes file are already there (outputFilePerms set): the bytes must not depend on the leftovers
		{
			var doc any
			if json.Unmarshal(base.spec, &doc) == nil {
				if re, err := json.MarshalIndent(doc, "", "\t"); err == nil {
					_ = os.MkdirAll(filepath.Join(dir, "out-dirty", "routes"), 0o755)
					_ = os.WriteFile(filepath.Join(dir, "out-dirty", "openapi.json"), append(re, '\n'), 0o644)
					_ = os.WriteFile(filepath.Join(dir, "out-dirty", "routes", "gleece.routes.go"), append(append([]byte{}, base.routes...), []byte("\n// leftover of an earlier, longer generation\n"+strings.Repeat("// x\n", 4000))...), 0o644)
					runs = append(runs, &c13Run{tag: "dirty", order: "canon", engine: "gin", skip: true, perms: "0644"})
				}
			}
		}
		orch.ParallelMap(len(runs), c.Parallel, func(i int) { exec(runs[i]) })
		totalRuns += len(runs)
		specVariants, routeVariants := map[string]bool{report.Hash(base.spec): true}, map[string]bool{report.Hash(base.routes): true}
		reported := map[string]bool{}
		for _, run := range append([]*c13Run{base}, runs...) {
			mu.Lock()
			for site, os := range run.orders {
				if distinctOrders[site] == nil {
					distinctOrders[site] = map[string]bool{}
				}
				for _, o := range os {
					distinctOrders[site][report.Hash([]byte(o))] = true
				}
			}
			mu.Unlock()
			if run == base {
				continue
			}
			res.Evaluations++
			site := strings.TrimRight(strings.SplitN(run.tag, "-", 2)[0], "0123456789")
			if strings.HasPrefix(run.tag, "source-files") || strings.HasPrefix(run.tag, "loaded-packages") || strings.HasPrefix(run.tag, "find-by-kind") {
				site = run.tag[:strings.LastIndex(run.tag, "-")]
			}
			where := map[string]string{"varied": site}
			cs := caseOf(p, map[string]any{"run": run.tag, "VERIF_ORDER": run.order, "engine": run.engine})
			if run.exit != base.exit {
				if !reported["exit"] {
					res.AddViolation("exit-status-depends-on-order", where, fmt.Sprintf("[%s] run %s (VERIF_ORDER=%q) exited %d, the canonical-order run %d", p.Name, run.tag, run.order, run.exit, base.exit), cs)
					reported["exit"] = true
				}
				continue
			}
			if string(run.spec) != string(base.spec) {
				specVariants[report.Hash(run.spec)] = true
				if !reported["spec-"+site] {
					reported["spec-"+site] = true
					res.AddViolation("spec-bytes-differ", where, fmt.Sprintf("[%s] spec of run %s (VERIF_ORDER=%q engine=%s) differs from the canonical-order gin run: %s", p.Name, run.tag, run.order, run.engine, firstLineDiff(string(base.spec), string(run.spec))), cs)
				}
			}
			if strings.HasPrefix(run.tag, "eng-") {
				continue // routes legitimately differ per engine
			}
			if run.tag == "dated" {
				if stripDateLine(run.routes) != stripDateLine(base.routes) {
					res.AddViolation("routes-differ-beyond-date-comment", where, fmt.Sprintf("[%s] routes with the date comment differ elsewhere: %s", p.Name, firstLineDiff(stripDateLine(base.routes), stripDateLine(run.routes))), cs)
				}
				if !strings.Contains(string(run.routes), "Generated Date:") {
					res.Inc("dated run carries no date line (not judged)")
				}
				continue
			}
			if string(run.routes) != string(base.routes) {
				routeVariants[report.Hash(run.routes)] = true
				if !reported["routes-"+site] {
					reported["routes-"+site] = true
					res.AddViolation("routes-bytes-differ", where, fmt.Sprintf("[%s] routes file of run %s (VERIF_ORDER=%q) differs from the canonical-order run: %s", p.Name, run.tag, run.order, firstLineDiff(string(base.routes), string(run.routes))), cs)
				}
			}
		}
		// warm-process stage: the same generation as the reference run, but as the SECOND invocation inside one
		// process whose first invocation generated something else (other engine / a template extension)
		if inprocBin != "" {
			prev := p.Config
			prev.SkipDate = true
			prev.SpecOut, prev.RoutesOut = "./out-warmprev/openapi.json", "./out-warmprev/routes/gleece.routes.go"
			prevMutate := func(doc map[string]any) {}
			variant := "other-engine-first"
			seq := "cfg-warmprev.json,cfg-warm.json"
			if warmIdx%2 == 1 && len(p.Controllers) > 0 {
				// the SAME config path both times; its first content only globs a part of the sources
				variant = "same-config-path-other-globs-first"
				c0 := p.Controllers[0]
				prev.Globs = []string{"./" + p.Pkg(c0.Pkg).Dir + "/" + c0.Files[0]}
				seq = "gleece.run.json<-cfg-warmprev.json,gleece.run.json<-cfg-warm.json"
			} else if warmIdx%3 == 2 {
				variant = "template-override-first"
				_ = os.WriteFile(filepath.Join(dir, "ovr-response-headers.hbs"), []byte("\t// verif override marker (must not outlive the generation that configured it)\n"), 0o644)
				prevMutate = func(doc map[string]any) {
					doc["routesConfig"].(map[string]any)["templateOverrides"] = map[string]any{"ResponseHeaders": "./ovr-response-headers.hbs"}
				}
			} else if warmIdx%3 == 0 {
				variant = "template-extension-first"
				_ = os.WriteFile(filepath.Join(dir, "ext-register.hbs"), []byte("\t// verif extension marker (must not outlive the generation that configured it)\n"), 0o644)
				prevMutate = func(doc map[string]any) {
					doc["routesConfig"].(map[string]any)["templateExtensions"] = map[string]any{"RegisterRoutesExtension": "./ext-register.hbs"}
				}
			} else {
				prev.Engine = "echo"
				prev.AuthPkg = p.ModPath + "/auth/echo"
			}
			warmIdx++
			_ = os.WriteFile(filepath.Join(dir, "cfg-warmprev.json"), []byte(prev.JSONWith(prevMutate)), 0o644)
			wc := p.Config
			wc.Engine, wc.SkipDate = "gin", true
			wc.AuthPkg = p.ModPath + "/auth/gin"
			wc.SpecOut, wc.RoutesOut = "./out-warm/openapi.json", "./out-warm/routes/gleece.routes.go"
			_ = os.WriteFile(filepath.Join(dir, "cfg-warm.json"), []byte(wc.JSON()), 0o644)
			env := append(append([]string{}, c.GoEnv...), "VERIF_ORDER=canon")
			stepsOut := filepath.Join(c.Work, "genseq-"+p.Name+".json")
			pr := orch.Run(dir, env, 300, filepath.Join(c.Work, "logs-genseq-"+p.Name), inprocBin, "genseq", "-dir", dir, "-config", seq, "-out", stepsOut)
			wspec, _ := os.ReadFile(filepath.Join(dir, "out-warm", "openapi.json"))
			wroutes, _ := os.ReadFile(filepath.Join(dir, "out-warm", "routes", "gleece.routes.go"))
			totalRuns += 2
			switch {
			case pr.Exit != 0 || wspec == nil || wroutes == nil:
				res.Inc("warm-process stage did not produce outputs (not judged): " + firstLine(lab.Tail(pr.Stderr, 200)))
			default:
				res.Evaluations++
				warmRuns[variant]++
				cs := caseOf(p, map[string]any{"run": "warm-process", "first_invocation": variant})
				if string(wspec) != string(base.spec) {
					res.AddViolation("spec-depends-on-earlier-generation-in-process", map[string]string{"first": variant}, fmt.Sprintf("[%s] spec generated as the 2nd invocation of one process (1st: %s) differs from a fresh process: %s", p.Name, variant, firstLineDiff(string(base.spec), string(wspec))), cs)
				}
				if string(wroutes) != string(base.routes) {
					res.AddViolation("routes-depend-on-earlier-generation-in-process", map[string]string{"first": variant}, fmt.Sprintf("[%s] routes file generated as the 2nd invocation of one process (1st: %s) differs from a fresh process: %s", p.Name, variant, firstLineDiff(string(base.routes), string(wroutes))), cs)
				}
			}
		}
		outputsSeen[fmt.Sprintf("spec-variants=%d routes-variants=%d", len(specVariants), len(routeVariants))]++
		dist.Add(sizes["source-files"], sizes["loaded-packages"], sizes["find-by-kind"], len(p.Controllers), p.Config.OpenAPI)
		if len(res.Samples) < 3 {
			var tags []string
			for _, r := range runs {
				tags = append(tags, r.tag)
			}
			sort.Strings(tags)
			res.Samples = append(res.Samples, map[string]any{"project": p.Name, "site_sizes": sizes, "runs": tags, "distinct_spec_outputs": len(specVariants), "distinct_routes_outputs": len(routeVariants)})
		}
	}
	res.Distinct = dist.N()
	orderCounts := map[string]int{}
	for s, m := range distinctOrders {
		orderCounts[s] = len(m)
	}
	res.Rule = fmt.Sprintf("%d multi-controller / multi-file / multi-package 'fullspec' projects (alternating 3.0.0/3.1.0); per accepted project: a canonical-order reference run, then for each hook-H1 site (source-files, loaded-packages, find-by-kind) every permutation when the site holds <=4 elements, otherwise %d seeded shuffles + the reversal, 6 joint shuffles of all three sites, %d hook-free runs in fresh processes (Go's own map randomisation; GOMAXPROCS 1/2/3 on every other one), four canonical-order runs under GOMAXPROCS 1/2/5/64 (parse schedule), the four other engines (spec only), one run with the date comment, one run into a used output directory (re-indented equivalent spec and a longer routes file already present, outputFilePerms set), and one warm-process run (the same generation as the 2nd invocation inside one process whose 1st invocation used another engine or a template extension); spec and routes bytes compared with the reference. distinct = distinct (site sizes, #controllers, version) tuples", nProj, nSample, nFree)
	res.Extra("warm_process_runs", warmRuns)
	res.Extra("cli_runs", totalRuns)
	res.Extra("distinct_orders_forced_per_site", orderCounts)
	res.Extra("output_variants_per_project", outputsSeen)
	res.Assumptions = []string{"the three hook sites capture the iteration-order freedom of the pipeline (validated in the design spike: one forced order => identical files); hook-free repetitions are kept as an independent net"}
	acceptanceFloor(res, accepted, len(projects), 0.5)
	return res, nil
}

func init() { Registry["C13"] = c13 }
