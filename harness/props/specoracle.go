package props

import (
	"fmt"
	"sort"
	"strings"

	"verif/harness/oapi"
	"verif/harness/synth"
)

// ---- DESIGN A.4: type -> schema, in a canonical textual form ----

func primSchema(n string) string {
	switch {
	case n == "string":
		return "string"
	case n == "bool":
		return "boolean"
	case strings.HasPrefix(n, "int") || strings.HasPrefix(n, "uint"):
		return "integer"
	case strings.HasPrefix(n, "float"):
		return "number"
	}
	return "?" + n
}

func expSchema(t synth.T) string {
	switch t.K {
	case "prim":
		return primSchema(t.Name)
	case "named":
		return "ref:" + t.Name
	case "slice":
		return "array<" + expSchema(*t.Elem) + ">"
	case "ptr":
		return expSchema(*t.Elem)
	case "map":
		return "map<" + expSchema(*t.Elem) + ">"
	case "bytes":
		return "string"
	case "time":
		return "string:date-time"
	case "any":
		return "object"
	}
	return "?" + t.K
}

// canonSchema maps an emitted schema (either dialect) onto the same canonical form.
// Validation keywords, descriptions, titles, nullable and the base64 format are ignored here.
func canonSchema(v any) string {
	s := oapi.Obj(v)
	if s == nil {
		return "<none>"
	}
	if r := oapi.RefName(s); r != "" {
		return "ref:" + r
	}
	if all := oapi.Arr(s["allOf"]); all != nil {
		var parts []string
		for _, a := range all {
			parts = append(parts, canonSchema(a))
		}
		return "allOf(" + strings.Join(parts, ",") + ")"
	}
	switch t := oapi.SchemaType(s); t {
	case "array":
		return "array<" + canonSchema(s["items"]) + ">"
	case "object":
		if ap := oapi.Obj(s["additionalProperties"]); ap != nil {
			return "map<" + canonSchema(ap) + ">"
		}
		if props := oapi.Obj(s["properties"]); len(props) > 0 {
			var ks []string
			for k := range props {
				ks = append(ks, k+":"+canonSchema(props[k]))
			}
			sort.Strings(ks)
			return "object{" + strings.Join(ks, ",") + "}"
		}
		return "object"
	case "string":
		if oapi.Str(s["format"]) == "date-time" {
			return "string:date-time"
		}
		return "string"
	case "":
		return "<untyped>"
	default:
		return t
	}
}

// ---- DESIGN A.3/A.5: the documented contract of one operation ----

type paramExpect struct {
	Name, In, Schema string
	Required         bool
}

type opContract struct {
	Params       []paramExpect
	Body         string // canonical schema or ""
	BodyRequired bool
	Form         map[string]paramExpect
	SuccessCode  string
	SuccessBody  string            // canonical schema or ""
	ErrCodes     map[string]string // code -> canonical schema
}

func expectedContract(p *synth.Project, c *synth.Controller, m *synth.Method) opContract {
	oc := opContract{Form: map[string]paramExpect{}, ErrCodes: map[string]string{}}
	for _, pr := range m.Params {
		switch pr.In {
		case "ctx":
		case "body":
			oc.Body = expSchema(pr.Type)
			oc.BodyRequired = pr.Required()
		case "form":
			oc.Form[pr.WireName()] = paramExpect{Name: pr.WireName(), In: "form", Schema: expSchema(pr.Type), Required: pr.Required()}
		default:
			oc.Params = append(oc.Params, paramExpect{Name: pr.WireName(), In: pr.In, Schema: expSchema(pr.Type), Required: pr.Required()})
		}
	}
	switch {
	case m.Response != 0:
		oc.SuccessCode = fmt.Sprint(m.Response)
	case m.Ret != nil:
		oc.SuccessCode = "200"
	default:
		oc.SuccessCode = "204"
	}
	if m.Ret != nil {
		oc.SuccessBody = expSchema(*m.Ret)
	}
	errSchema := "ref:Rfc7807Error"
	if m.ErrType != "" {
		errSchema = "ref:" + m.ErrType
	}
	for _, er := range m.ErrResponses {
		oc.ErrCodes[fmt.Sprint(er.Code)] = errSchema
	}
	return oc
}

func jsonContentSchema(holder map[string]any, ctype string) any {
	return oapi.Obj(oapi.Obj(holder["content"])[ctype])["schema"]
}

// compareContract returns "" or a description of the first difference.
func compareContract(oc opContract, op map[string]any) (kind, detail string) {
	params := oapi.Arr(op["parameters"])
	if len(params) != len(oc.Params) {
		var names []string
		for _, pv := range params {
			names = append(names, oapi.Str(oapi.Obj(pv)["in"])+":"+oapi.Str(oapi.Obj(pv)["name"]))
		}
		return "parameter-list", fmt.Sprintf("documented parameters %v, declared %v", names, oc.Params)
	}
	for i, e := range oc.Params {
		g := oapi.Obj(params[i])
		if oapi.Str(g["name"]) != e.Name || oapi.Str(g["in"]) != e.In {
			return "parameter-identity", fmt.Sprintf("parameter #%d documented as %s:%s, declared %s:%s (signature order)", i, oapi.Str(g["in"]), oapi.Str(g["name"]), e.In, e.Name)
		}
		if oapi.Bool(g["required"]) != e.Required {
			return "parameter-required", fmt.Sprintf("parameter %s:%s required=%v, expected %v", e.In, e.Name, g["required"], e.Required)
		}
		if cs := canonSchema(g["schema"]); cs != e.Schema {
			return "parameter-schema", fmt.Sprintf("parameter %s:%s schema %s, expected %s", e.In, e.Name, cs, e.Schema)
		}
	}
	rb := oapi.Obj(op["requestBody"])
	switch {
	case oc.Body != "":
		if rb == nil {
			return "body-missing", "declared @Body parameter is not documented"
		}
		if cs := canonSchema(jsonContentSchema(rb, "application/json")); cs != oc.Body {
			return "body-schema", fmt.Sprintf("requestBody schema %s, expected %s", cs, oc.Body)
		}
		if oapi.Bool(rb["required"]) != oc.BodyRequired {
			return "body-required", fmt.Sprintf("requestBody required=%v, expected %v", rb["required"], oc.BodyRequired)
		}
	case len(oc.Form) > 0:
		if rb == nil {
			return "form-missing", "declared @FormField parameters are not documented"
		}
		fs := oapi.Obj(jsonContentSchema(rb, "application/x-www-form-urlencoded"))
		if fs == nil || oapi.SchemaType(fs) != "object" {
			return "form-schema", fmt.Sprintf("form body is not one urlencoded object: %v", rb)
		}
		props := oapi.Obj(fs["properties"])
		if len(props) != len(oc.Form) {
			return "form-properties", fmt.Sprintf("form properties %v, declared %v", keysOf(props), oc.Form)
		}
		req := map[string]bool{}
		for _, r := range oapi.Arr(fs["required"]) {
			req[oapi.Str(r)] = true
		}
		for name, e := range oc.Form {
			pv, ok := props[name]
			if !ok {
				return "form-properties", fmt.Sprintf("form field %s is not documented (has %v)", name, keysOf(props))
			}
			if cs := canonSchema(pv); cs != e.Schema {
				return "form-field-schema", fmt.Sprintf("form field %s schema %s, expected %s", name, cs, e.Schema)
			}
			if req[name] != e.Required {
				return "form-field-required", fmt.Sprintf("form field %s required=%v, expected %v", name, req[name], e.Required)
			}
		}
	default:
		if rb != nil {
			return "body-invented", fmt.Sprintf("a requestBody is documented although the method declares neither @Body nor @FormField: %v", rb)
		}
	}
	resps := oapi.Obj(op["responses"])
	sr := oapi.Obj(resps[oc.SuccessCode])
	if sr == nil {
		return "success-code", fmt.Sprintf("success response %s is not documented (has %v)", oc.SuccessCode, keysOf(resps))
	}
	got := ""
	if sc := jsonContentSchema(sr, "application/json"); sc != nil {
		got = canonSchema(sc)
	}
	if got != oc.SuccessBody {
		return "success-schema", fmt.Sprintf("success response %s schema %q, expected %q", oc.SuccessCode, got, oc.SuccessBody)
	}
	for code, es := range oc.ErrCodes {
		er := oapi.Obj(resps[code])
		if er == nil {
			return "error-code-missing", fmt.Sprintf("declared @ErrorResponse(%s) is not documented (has %v)", code, keysOf(resps))
		}
		if cs := canonSchema(jsonContentSchema(er, "application/json")); cs != es {
			return "error-schema", fmt.Sprintf("error response %s schema %s, expected %s", code, cs, es)
		}
	}
	// success codes other than the expected one must not be invented among 2xx
	for code := range resps {
		if strings.HasPrefix(code, "2") && code != oc.SuccessCode {
			return "success-code", fmt.Sprintf("an undeclared success response %s is documented (expected only %s)", code, oc.SuccessCode)
		}
	}
	return "", ""
}

func keysOf(m map[string]any) []string {
	var ks []string
	for k := range m {
		ks = append(ks, k)
	}
	sort.Strings(ks)
	return ks
}

// ---- DESIGN A.6: expected components ----

type typeKey struct{ Pkg, Name string }

// reachable computes the closure of named types used by endpoint methods.
// visibleOnly=true restricts the roots to non-hidden methods.
func reachable(p *synth.Project, includeHidden bool) map[typeKey]bool {
	seen := map[typeKey]bool{}
	var visit func(t synth.T)
	visit = func(t synth.T) {
		b := t.Base()
		if b.K == "map" {
			visit(*b.Elem)
			return
		}
		if b.K != "named" {
			return
		}
		k := typeKey{b.Pkg, b.Name}
		if seen[k] {
			return
		}
		seen[k] = true
		if st := p.Struct(b.Pkg, b.Name); st != nil {
			for _, f := range st.Fields {
				visit(f.Type)
			}
		}
	}
	for ci := range p.Controllers {
		c := &p.Controllers[ci]
		if c.Decoy {
			continue
		}
		for mi := range c.Methods {
			m := &c.Methods[mi]
			if !m.IsEndpoint() || (m.Hidden && !includeHidden) {
				continue
			}
			for _, pr := range m.Params {
				visit(pr.Type)
			}
			if m.Ret != nil {
				visit(*m.Ret)
			}
			if m.ErrType != "" {
				visit(synth.Named(c.Pkg, m.ErrType))
			}
		}
	}
	return seen
}

func plainErrorUsed(p *synth.Project) bool {
	for ci := range p.Controllers {
		for mi := range p.Controllers[ci].Methods {
			m := &p.Controllers[ci].Methods[mi]
			if m.IsEndpoint() && m.ErrType == "" && !p.Controllers[ci].Decoy {
				return true
			}
		}
	}
	return false
}

// expectedStruct renders the canonical component of a struct declaration (A.6).
func expectedStruct(st *synth.Struct) (canon string, required []string) {
	var props []string
	var embedded []string
	for _, f := range st.Fields {
		if f.Embedded {
			embedded = append(embedded, "ref:"+f.Type.Base().Name)
			continue
		}
		w := f.WireName()
		if w == "" {
			continue
		}
		props = append(props, w+":"+expSchema(f.Type))
		for _, r := range strings.Split(f.Validate, ",") {
			if r == "required" {
				required = append(required, w)
			}
		}
	}
	sort.Strings(props)
	sort.Strings(required)
	own := "object"
	if len(props) > 0 {
		own = "object{" + strings.Join(props, ",") + "}"
	}
	if len(embedded) > 0 {
		return "allOf(" + strings.Join(append([]string{own}, embedded...), ",") + ")", required
	}
	return own, required
}
