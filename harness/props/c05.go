package props

import (
	"fmt"
	"strings"

	"verif/harness/lab"
	"verif/harness/orch"
	"verif/harness/report"
	"verif/harness/rng"
	"verif/harness/synth"
)

type routeRef struct {
	c *synth.Controller
	m *synth.Method
}

func endpointsOf(p *synth.Project) []routeRef {
	var out []routeRef
	for ci := range p.Controllers {
		for mi := range p.Controllers[ci].Methods {
			m := &p.Controllers[ci].Methods[mi]
			if m.IsEndpoint() {
				out = append(out, routeRef{&p.Controllers[ci], m})
			}
		}
	}
	return out
}

// genRouterProjects draws accepted-looking projects for the router labs.
func genRouterProjects(c *orch.Ctx, prop string, n int, tweak func(i int, pr *synth.Profile)) []*synth.Project {
	var out []*synth.Project
	for i := 0; i < n; i++ {
		prof := synth.Profiles["router"]
		if tweak != nil {
			tweak(i, &prof)
		}
		out = append(out, synth.Gen(rng.New(c.Seed, prop, fmt.Sprint(i)), prof, fmt.Sprintf("p%04d", i), lab.ModPath))
	}
	return out
}

// checkBinding judges one request on one engine against T-bind (DESIGN Appendix B).
func checkBinding(res *report.Result, run *ProbeRun, br BuiltRequest, eng, rid string, p *synth.Project, counts map[string]int) {
	calls := run.calls(rid)
	resp := run.resp(rid)
	where := map[string]string{"engine": eng}
	cs := map[string]any{"project": p, "request": br, "engine": eng}
	label := fmt.Sprintf("[%s %s %s %s (%s)]", p.Name, eng, br.Req.Verb, br.Req.Target, br.Why)
	if run.has(rid, "handler_panic") {
		res.AddViolation("handler-panic", where, label+" the generated handler panicked", cs)
		return
	}
	if resp == nil {
		res.Inc("no response recorded")
		return
	}
	if br.Expect422 {
		counts["expect-422"]++
		if len(calls) > 0 {
			res.AddViolation("invoked-despite-invalid-request", where, fmt.Sprintf("%s the method was invoked although the request must be refused (status %d)", label, resp.Status), cs)
			return
		}
		if resp.Status != 422 {
			res.AddViolation("wrong-refusal-status", where, fmt.Sprintf("%s answered %d, expected 422: %s", label, resp.Status, firstLine(resp.Body)), cs)
		}
		return
	}
	counts["expect-call"]++
	if len(calls) != 1 {
		w := map[string]string{"engine": eng, "status": fmt.Sprint(resp.Status)}
		res.AddViolation("valid-request-not-delivered", w, fmt.Sprintf("%s %d calls recorded, status %d: %s", label, len(calls), resp.Status, firstLine(resp.Body)), cs)
		return
	}
	call := calls[0]
	if call.Ctl != br.Ctl || call.Method != br.Method {
		res.AddViolation("wrong-method-invoked", where, fmt.Sprintf("%s reached %s.%s, expected %s.%s", label, call.Ctl, call.Method, br.Ctl, br.Method), cs)
		return
	}
	if len(call.Args) != len(br.Args) {
		res.AddViolation("argument-count", where, fmt.Sprintf("%s %d arguments recorded, %d declared", label, len(call.Args), len(br.Args)), cs)
		return
	}
	for i, want := range br.Args {
		got := call.Args[i]
		if want.IsCtx {
			counts["ctx-args"]++
			if call.Ctx != "tok-"+rid {
				res.AddViolation("context-not-request-context", where, fmt.Sprintf("%s context parameter carries %q, the request context holds %q", label, call.Ctx, "tok-"+rid), cs)
				return
			}
			continue
		}
		counts["args-compared"]++
		if !sameJSON(string(got.V), want.JSON) {
			res.AddViolation("argument-value", map[string]string{"engine": eng, "go_type": got.T}, fmt.Sprintf("%s parameter %s (%s) received %s, sent %s", label, want.Name, got.T, string(got.V), want.JSON), cs)
			return
		}
	}
}

func c05(c *orch.Ctx) (*report.Result, error) {
	res := &report.Result{Property: "C05"}
	bin, err := c.CLI()
	if err != nil {
		return nil, err
	}
	l, err := lab.New(c)
	if err != nil {
		return nil, err
	}
	n := 8
	if !c.Quick() {
		n = 80
	}
	var projects []*synth.Project
	if c.Replay != "" {
		var rc struct {
			Project *synth.Project `json:"project"`
		}
		if err := loadCase(c.Replay, &rc); err != nil {
			return nil, err
		}
		projects = []*synth.Project{rc.Project}
	} else {
		projects = genRouterProjects(c, "C05", n, nil)
	}
	dist := report.NewDistincter()
	counts := map[string]int{}
	enginesSeen := map[string]int{}
	accepted := 0
	type job struct {
		rp   *RouterProject
		reqs []BuiltRequest
	}
	jobs := make([]*job, len(projects))
	orch.ParallelMap(len(projects), 4, func(i int) {
		p := projects[i]
		topEnum := i%4 == 1
		rp := BuildRouterProject(c, l, bin, p, RouterOpts{EnumValid: i%3 == 0, TopLevelEnum: topEnum})
		j := &job{rp: rp}
		r := rng.New(c.Seed, "C05-req", p.Name)
		k := 0
		add := func(rr routeRef, plan reqPlan) {
			k++
			if br, ok := buildRequest(r, p, rr.c, rr.m, fmt.Sprintf("%s-r%04d", p.Name, k), plan); ok {
				j.reqs = append(j.reqs, br)
			}
		}
		for _, rr := range endpointsOf(p) {
			for _, class := range []string{"typical", "boundary", "zero", "boundary"} {
				add(rr, reqPlan{Class: class})
			}
			add(rr, reqPlan{Class: "typical", OmitOptional: true})
			add(rr, reqPlan{Class: "typical", Decoys: true})
			add(rr, reqPlan{Class: "typical", OmitOptional: true, Decoys: true})
			for _, pr := range rr.m.Params {
				if pr.In == "ctx" {
					continue
				}
				add(rr, reqPlan{Class: "typical", Omit: pr.GoName})
				add(rr, reqPlan{Class: "typical", Omit: pr.GoName, Decoys: true})
				add(rr, reqPlan{Class: "typical", IllTyped: pr.GoName})
				if pr.Validate != "" {
					add(rr, reqPlan{Class: "typical", Violate: pr.GoName})
				}
				if topEnum && pr.In != "body" {
					// validateTopLevelOnlyEnum: a top-level enum parameter only converts from one of its constants
					add(rr, reqPlan{Class: "typical", BadEnum: pr.GoName})
				}
				if pr.In == "body" {
					add(rr, reqPlan{Class: "typical", BadBody: true})
					add(rr, reqPlan{Class: "boundary", BadBody: true})
				}
			}
		}
		jobs[i] = j
	})
	for _, j := range jobs {
		rp, p := j.rp, j.rp.P
		if len(rp.Engines) == 0 {
			res.Inc("no generated router compiled (C09's subject or project rejected)")
			continue
		}
		accepted++
		gor := 0
		if !c.Quick() {
			gor = 8
		}
		var wl Workload
		for _, br := range j.reqs {
			wl.Requests = append(wl.Requests, br.Req)
		}
		wl.Goroutines = gor
		run, err := rp.Run(wl, gor > 0)
		if err != nil {
			res.Inc("probe did not run: " + firstLine(err.Error()))
			continue
		}
		for _, e := range run.Events {
			if e.Ev == "register_panic" {
				res.AddViolation("router-registration-panics", map[string]string{"engine": e.Eng}, fmt.Sprintf("[%s %s] RegisterRoutes panicked: %s", p.Name, e.Eng, firstLine(e.Detail)), map[string]any{"project": p})
			}
		}
		for _, eng := range rp.Engines {
			enginesSeen[eng]++
			for _, br := range j.reqs {
				res.Evaluations++
				checkBinding(res, run, br, eng, br.Req.Rid+"@"+eng, p, counts)
				for g := 0; g < gor; g++ {
					rid := fmt.Sprintf("%s@%s#g%d", br.Req.Rid, eng, g)
					if run.resp(rid) != nil {
						res.Evaluations++
						checkBinding(res, run, br, eng, rid, p, counts)
					}
				}
				var shape []string
				for _, pr := range brMethod(p, br).Params {
					shape = append(shape, pr.In+":"+expSchemaShape(pr.Type)+fmt.Sprint(pr.Type.IsPtr(), pr.Wire != "", pr.Validate != ""))
				}
				dist.Add(strings.Join(shape, ","), br.Why[:minInt(len(br.Why), 12)], br.Expect422)
			}
		}
		if gor > 0 {
			for _, blk := range run.raceInGenerated(p.ModPath) {
				res.AddViolation("data-race-in-generated-router", nil, fmt.Sprintf("[%s] %s", p.Name, blk), map[string]any{"project": p})
			}
			counts["race-reports-total"] += run.RaceCount
		}
		if len(res.Samples) < 3 && len(j.reqs) > 3 {
			res.Samples = append(res.Samples, map[string]any{"project": p.Name, "engines": rp.Engines, "request": j.reqs[1], "events_for_it": run.ByRid[j.reqs[1].Req.Rid+"@"+rp.Engines[0]]})
		}
	}
	res.Distinct = dist.N()
	res.Rule = "projects drawn from the compile-safe 'router' profile; for every route and every engine: valid requests with typical / boundary (min and max of the integer width, float extremes) / zero values, URL-reserved and multibyte strings, wire-name aliases, query slices, enums, aliases, pointers present and absent, JSON and form bodies; plus one request per parameter that omits it, one that sends an unconvertible or out-of-range value, one that violates its validator, and malformed bodies. The controller methods record the arguments they receive; expected values are computed with Go's own typed conversions (strconv with the declared width, encoding/json). distinct = distinct (parameter list shape, request class, refusal?)"
	res.Extra("observations", counts)
	res.Extra("projects_with_a_running_router", accepted)
	res.Extra("engines_exercised", enginesSeen)
	res.Assumptions = []string{"engines are constructed as their documentation prescribes for decoded values (fiber UnescapePath)", "a pointer parameter that carries a validator is always sent (whether an absent optional value must pass its validator is not stated)"}
	if accepted == 0 && c.Replay == "" {
		res.Fatal = "no project produced a running router"
	}
	return res, nil
}

func brMethod(p *synth.Project, br BuiltRequest) *synth.Method {
	for ci := range p.Controllers {
		for mi := range p.Controllers[ci].Methods {
			if p.Controllers[ci].Methods[mi].Name == br.Method {
				return &p.Controllers[ci].Methods[mi]
			}
		}
	}
	return &synth.Method{}
}

func minInt(a, b int) int {
	if a < b {
		return a
	}
	return b
}

func init() { Registry["C05"] = c05 }
