package props

import (
	"encoding/json"
	"fmt"
	"os"
	"path/filepath"
	"sort"
	"strings"

	"verif/harness/lab"
	"verif/harness/monitors/pipe"
	"verif/harness/orch"
	"verif/harness/report"
	"verif/harness/rng"
	"verif/harness/synth"
)

// The end-to-end half of C15: "each offending method receives a warning". Projects whose controllers all
// share one prefix (so that overlap of the method routes and overlap of the full routes coincide) get
// routes drawn from a tiny alphabet; the set of methods carrying a route-conflict diagnostic after the
// real validation must equal the set the 12-line overlap model derives from the descriptor.

var c15Base = synth.Profile{Name: "c15e2e", MaxControllers: 3, MaxMethods: 1, MultiPkg: true, MultiFile: true, ParamIn: []string{"path"}, ParamTypeLevel: 0, Models: 0, RouteStyle: "clean"}

func c15Overlap(a, b []string) bool {
	if len(a) != len(b) {
		return false
	}
	for i := range a {
		pa, pb := strings.HasPrefix(a[i], "{"), strings.HasPrefix(b[i], "{")
		if !pa && !pb && a[i] != b[i] {
			return false
		}
	}
	return true
}

func c15Segments(route string) []string {
	var out []string
	for _, s := range strings.Split(route, "/") {
		if s != "" {
			out = append(out, s)
		}
	}
	return out
}

func genC15Project(c *orch.Ctx, i int) *synth.Project {
	r := rng.New(c.Seed, "C15-e2e", fmt.Sprint(i))
	p := synth.Gen(r, c15Base, fmt.Sprintf("p%04d", i), lab.ModPath)
	prefix := []string{"/api", "/", "/v1/items", "/api"}[r.Intn(4)]
	lits := []string{"a", "b", "c"}
	for ci := range p.Controllers {
		cc := &p.Controllers[ci]
		cc.Route, cc.NoRouteAnn = prefix, false
		cc.Security = nil
		if r.Intn(3) == 0 {
			// an unrelated controller-level diagnostic (missing @Tag is a warning)
			cc.NoTag, cc.Tag = true, ""
			p.SetFeature("controller-with-unrelated-warning")
		}
		cc.Methods = nil
		nm := 1 + r.Intn(5)
		for mi := 0; mi < nm; mi++ {
			name := fmt.Sprintf("M%d%c", ci, 'A'+mi)
			if r.Intn(3) == 0 {
				name = fmt.Sprintf("Shared%c", 'A'+mi) // the same method name in several controllers
			}
			m := synth.Method{Name: name, Verb: []string{"GET", "GET", "POST"}[r.Intn(3)], File: r.Intn(len(cc.Files))}
			ns := 1 + r.Intn(3)
			np := 0
			for s := 0; s < ns; s++ {
				if r.Intn(3) == 0 {
					np++
					name := fmt.Sprintf("%c%d", 'p'+byte(r.Intn(3)), np)
					m.Route += "/{" + name + "}"
					m.Params = append(m.Params, synth.Param{GoName: name, In: "path", Type: synth.Prim("string")})
				} else {
					m.Route += "/" + lits[r.Intn(len(lits))]
				}
			}
			if r.Intn(4) == 0 {
				// an unrelated method-level warning (unknown annotation property)
				m.Params = append(m.Params, synth.Param{GoName: "q", In: "query", Type: synth.Prim("string")})
				m.DropAnn = append(m.DropAnn, "Query:q")
				m.ExtraAnn = append(m.ExtraAnn, "// @Query(q, { example: 'abc' })")
				p.SetFeature("method-with-unrelated-warning")
			}
			t := synth.Prim("string")
			m.Ret = &t
			if r.Intn(4) == 0 {
				// @Hidden only removes the operation from the document; the route is still served and still conflicts
				m.Hidden = true
				p.SetFeature("hidden-method")
			}
			cc.Methods = append(cc.Methods, m)
		}
	}
	p.Config.DefaultSecurity, p.Config.Enforce = nil, false
	return p
}

// C15EndToEnd appends its observations to res (the in-process monitor's result).
func C15EndToEnd(c *orch.Ctx, res *report.Result) error {
	l, err := lab.New(c)
	if err != nil {
		return err
	}
	inproc, err := c.Inproc()
	if err != nil {
		return err
	}
	n := 40
	if !c.Quick() {
		n = 600
	}
	var projects []*synth.Project
	if c.Replay != "" {
		var rc struct {
			Project *synth.Project `json:"project"`
		}
		if err := loadCase(c.Replay, &rc); err != nil {
			return err
		}
		projects = []*synth.Project{rc.Project}
	} else {
		for i := 0; i < n; i++ {
			projects = append(projects, genC15Project(c, i))
		}
	}
	type obs struct {
		val  [2]*pipe.ValidateOut
		errs [2]string
	}
	all := make([]obs, len(projects))
	orders := []string{"*=canon", fmt.Sprintf("*=s%d", 31*c.Seed+7)}
	orch.ParallelMap(len(projects), c.Parallel, func(i int) {
		p := projects[i]
		dir, err := l.Write(p, p.Render(synth.RenderOpts{}))
		if err != nil {
			panic(err)
		}
		for k, ord := range orders {
			out := filepath.Join(c.Work, fmt.Sprintf("c15val-%s-%d.json", p.Name, k))
			env := append(append([]string{}, c.GoEnv...), "VERIF_ORDER="+ord)
			pr := orch.Run(dir, env, 180, filepath.Join(c.Work, fmt.Sprintf("logs-c15val-%s-%d", p.Name, k)), inproc, "validate", "-dir", dir, "-config", "gleece.config.json", "-out", out)
			if b, err := os.ReadFile(out); err == nil {
				var vo pipe.ValidateOut
				if json.Unmarshal(b, &vo) == nil {
					all[i].val[k] = &vo
				}
			}
			if all[i].val[k] == nil {
				all[i].errs[k] = fmt.Sprintf("exit %d: %s", pr.Exit, lab.Tail(pr.Stderr, 300))
			}
		}
	})
	e2eProjects, e2eMethods, e2eFlagged, withUnrelated := 0, 0, 0, 0
	shapes := map[string]bool{}
	for i, p := range projects {
		o := all[i]
		if o.val[0] == nil || o.val[1] == nil {
			res.Inc("end-to-end: validation did not complete: " + firstLine(o.errs[0]+o.errs[1]))
			continue
		}
		if o.val[0].ConfigErr+o.val[0].PipelineErr+o.val[0].GraphErr != "" {
			res.Inc("end-to-end: project did not reach validation: " + firstLine(o.val[0].ConfigErr+o.val[0].PipelineErr+o.val[0].GraphErr))
			continue
		}
		e2eProjects++
		res.Evaluations++
		// expected from the descriptor
		type ep struct {
			key  string
			verb string
			segs []string
		}
		var eps []ep
		for ci := range p.Controllers {
			cc := &p.Controllers[ci]
			for mi := range cc.Methods {
				m := &cc.Methods[mi]
				if m.IsEndpoint() {
					eps = append(eps, ep{cc.Name + "." + m.Name, m.Verb, c15Segments(synth.FullRoute(cc, m))})
				}
			}
		}
		want := map[string]bool{}
		for a := range eps {
			for b := range eps {
				if a != b && eps[a].verb == eps[b].verb && c15Overlap(eps[a].segs, eps[b].segs) {
					want[eps[a].key] = true
				}
			}
		}
		e2eMethods += len(eps)
		e2eFlagged += len(want)
		if p.HasFeature("controller-with-unrelated-warning") || p.HasFeature("method-with-unrelated-warning") {
			withUnrelated++
		}
		shapes[fmt.Sprintf("%d/%d/%v/%v", len(eps), len(want), p.HasFeature("controller-with-unrelated-warning"), p.HasFeature("method-with-unrelated-warning"))] = true
		flagged := func(v *pipe.ValidateOut) map[string]bool {
			got := map[string]bool{}
			for _, d := range v.Diags {
				if d.Code != "route-conflict" || len(d.Entity) < 2 {
					continue
				}
				got[strings.TrimPrefix(d.Entity[0], "Controller ")+"."+strings.TrimPrefix(d.Entity[len(d.Entity)-1], "Receiver ")] = true
			}
			return got
		}
		list := func(m map[string]bool) []string {
			var ks []string
			for k := range m {
				ks = append(ks, k)
			}
			sort.Strings(ks)
			return ks
		}
		cs := map[string]any{"project": p, "stage": "end-to-end"}
		var routes []string
		for _, e := range eps {
			routes = append(routes, e.key+"="+e.verb+" /"+strings.Join(e.segs, "/"))
		}
		for k, v := range o.val {
			got := flagged(v)
			var missing, extra []string
			for key := range want {
				if !got[key] {
					missing = append(missing, key)
				}
			}
			for key := range got {
				if !want[key] {
					extra = append(extra, key)
				}
			}
			sort.Strings(missing)
			sort.Strings(extra)
			where := map[string]string{"stage": "end-to-end", "unrelated_warning_present": fmt.Sprint(p.HasFeature("controller-with-unrelated-warning") || p.HasFeature("method-with-unrelated-warning"))}
			if len(missing) > 0 {
				res.AddViolation("offending-method-without-warning", where, fmt.Sprintf("[%s order=%s] %v overlap another same-verb route but carry no route-conflict warning (flagged: %v; routes: %v)", p.Name, orders[k], missing, list(got), routes), cs)
				break
			}
			if len(extra) > 0 {
				res.AddViolation("warning-on-non-overlapping-method", where, fmt.Sprintf("[%s order=%s] %v carry a route-conflict warning but overlap no other same-verb route (routes: %v)", p.Name, orders[k], extra, routes), cs)
				break
			}
		}
		if a, b := list(flagged(o.val[0])), list(flagged(o.val[1])); strings.Join(a, ",") != strings.Join(b, ",") {
			res.AddViolation("flagged-set-depends-on-discovery-order", map[string]string{"stage": "end-to-end"}, fmt.Sprintf("[%s] flagged with %s: %v; with %s: %v", p.Name, orders[0], a, orders[1], b), cs)
		}
	}
	res.Distinct += len(shapes)
	res.Rule += fmt.Sprintf(" || end-to-end stage: %d generated projects (1-3 controllers sharing one prefix, 1-5 methods each, routes of 1-3 segments over {a,b,c,{param}}, verbs GET/GET/POST, a third of the controllers without @Tag and a quarter of the methods with an unknown annotation property so that unrelated warnings are present), validated by the real pipeline under two forced discovery orders (hook H1); the set of methods carrying a route-conflict diagnostic must equal the set the overlap model derives from the descriptor, under both orders", len(projects))
	res.Extra("end_to_end", map[string]any{"projects_validated": e2eProjects, "methods": e2eMethods, "methods_expected_to_be_flagged": e2eFlagged, "projects_with_unrelated_warnings": withUnrelated, "distinct_shapes": len(shapes)})
	res.Assumptions = append(res.Assumptions, "end-to-end stage: controllers of one project share their prefix (gleece hands FindConflicts the method-level @Route values; with equal prefixes both readings of 'the list of routes' coincide)")
	return nil
}
