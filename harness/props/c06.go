package props

import (
	"fmt"
	"strings"

	"verif/harness/oapi"
	"verif/harness/orch"
	"verif/harness/report"
	"verif/harness/synth"
)

func sigShape(m *synth.Method) string {
	var parts []string
	for _, pr := range m.Params {
		v := ""
		if pr.Validate != "" {
			v = "v"
			if strings.Contains(pr.Validate, "required") {
				v = "r"
			}
		}
		w := ""
		if pr.Wire != "" {
			w = "w"
		}
		parts = append(parts, pr.In+":"+expSchema(pr.Type)+fmt.Sprint(pr.Type.IsPtr())+v+w)
	}
	ret := "-"
	if m.Ret != nil {
		ret = expSchema(*m.Ret)
	}
	return strings.Join(parts, ",") + "=>" + ret + "/" + m.ErrType + fmt.Sprint(m.Response, len(m.ErrResponses))
}

func c06(c *orch.Ctx) (*report.Result, error) {
	opsChecked := 0
	return runSpecProp(c, specProp{
		id: "C06", nQuick: 80, nThorough: 800, floor: 0.6,
		gen:    genFromProfile("C06", "signatures", nil),
		rule:   "projects drawn from the 'signatures' profile (0-6 parameters over path/query/header/form/body/context, pointers, wire-name aliases, validators incl. explicit required, enums/aliases/query slices, all return shapes, custom error types, @Response/@ErrorResponse); every documented operation of both spec versions is compared with the contract derived from the method's descriptor (DESIGN A.3-A.5). distinct = distinct method signature shapes (per parameter: location x schema x pointer x validator class x alias; result shape; error type; response annotations)",
		assume: []string{"type->schema table and requiredness rule of DESIGN A.3/A.4; responses are judged as 'declared subset of documented with equal content' (the 3.0-only `default` response is not judged)"},
		check: func(res *report.Result, sr *SpecRun, dist *report.Distincter) {
			p := sr.P
			for _, v := range specVersions {
				doc := sr.Ver[v].Doc
				ops := map[string]oapi.Op{}
				for _, op := range doc.Operations() {
					ops[op.Key()] = op
				}
				for ci := range p.Controllers {
					cc := &p.Controllers[ci]
					for mi := range cc.Methods {
						m := &cc.Methods[mi]
						if !m.IsEndpoint() || m.Hidden {
							continue
						}
						key := strings.ToLower(m.Verb) + " " + synth.FullRoute(cc, m)
						op, ok := ops[key]
						if !ok {
							res.Inc("operation missing from the spec (C01's subject)")
							continue
						}
						res.Evaluations++
						opsChecked++
						dist.Add(sigShape(m))
						if kind, detail := compareContract(expectedContract(p, cc, m), op.Raw); kind != "" {
							where := map[string]string{"version": v}
							if p.HasFeature("user-type-time.Time") && strings.Contains(detail, "date-time") && strings.Contains(detail, "ref:Time") {
								// cause attested from the descriptor: the project declares its own struct named Time
								where["cause"] = "user-struct-named-Time-documented-as-date-time"
								kind = "named-Time-struct-documented-as-date-time"
							}
							res.AddViolation(kind, where, fmt.Sprintf("[%s %s] %s.%s (%s): %s", p.Name, v, cc.Name, m.Name, key, detail), caseOf(p, map[string]any{"version": v, "method": cc.Name + "." + m.Name}))
						}
						if len(res.Samples) < 3 && len(m.Params) > 2 {
							res.Samples = append(res.Samples, map[string]any{"method": cc.Name + "." + m.Name, "operation": key, "signature_shape": sigShape(m), "expected_contract": fmt.Sprintf("%+v", expectedContract(p, cc, m))})
						}
					}
				}
			}
		},
		finish: func(res *report.Result, runs []*SpecRun) { res.Extra("operations_compared", opsChecked) },
	})
}

func init() { Registry["C06"] = c06 }
