module verif/harness

go 1.24.7

require github.com/gopher-fleece/gleece/v2 v2.0.0

replace github.com/gopher-fleece/gleece/v2 => /repo

require (
	github.com/aymerick/raymond v2.0.3-0.20180322193309-b565731e1464+incompatible
	github.com/bmatcuk/doublestar/v4 v4.9.1
	github.com/deckarep/golang-set/v2 v2.8.0
	github.com/getkin/kin-openapi v0.133.0
	github.com/gin-gonic/gin v1.11.0
	github.com/go-chi/chi/v5 v5.2.3
	github.com/go-playground/validator/v10 v10.28.0
	github.com/gofiber/fiber/v2 v2.52.10
	github.com/google/uuid v1.6.0
	github.com/gopher-fleece/runtime v1.2.1
	github.com/gorilla/mux v1.8.1
	github.com/haimkastner/unitsnet-go v1.1.38
	github.com/iancoleman/strcase v0.3.0
	github.com/labstack/echo/v4 v4.13.4
	github.com/nsf/jsondiff v0.0.0-20230430225905-43f6cf3098c1
	github.com/onsi/ginkgo/v2 v2.27.2
	github.com/onsi/gomega v1.38.2
	github.com/pb33f/libopenapi v0.28.2
	github.com/pb33f/libopenapi-validator v0.9.3
	github.com/spf13/cobra v1.10.2
	go.yaml.in/yaml/v4 v4.0.0-rc.3
	golang.org/x/tools v0.39.0
)

require (
	github.com/Masterminds/semver/v3 v3.4.0 // indirect
	github.com/andybalholm/brotli v1.2.0 // indirect
	github.com/bahlo/generic-list-go v0.2.0 // indirect
	github.com/basgys/goxml2json v1.1.1-0.20231018121955-e66ee54ceaad // indirect
	github.com/buger/jsonparser v1.1.1 // indirect
	github.com/bytedance/gopkg v0.1.3 // indirect
	github.com/bytedance/sonic v1.14.2 // indirect
	github.com/bytedance/sonic/loader v0.4.0 // indirect
	github.com/clipperhouse/stringish v0.1.1 // indirect
	github.com/clipperhouse/uax29/v2 v2.3.0 // indirect
	github.com/cloudwego/base64x v0.1.6 // indirect
	github.com/gin-contrib/sse v1.1.0 // indirect
	github.com/go-openapi/swag/jsonname v0.25.4 // indirect
	github.com/goccy/go-json v0.10.5 // indirect
	github.com/goccy/go-yaml v1.19.0 // indirect
	github.com/json-iterator/go v1.1.12 // indirect
	github.com/klauspost/compress v1.18.2 // indirect
	github.com/klauspost/cpuid/v2 v2.3.0 // indirect
	github.com/labstack/gommon v0.4.2 // indirect
	github.com/mattn/go-colorable v0.1.14 // indirect
	github.com/mattn/go-isatty v0.0.20 // indirect
	github.com/mattn/go-runewidth v0.0.19 // indirect
	github.com/modern-go/concurrent v0.0.0-20180306012644-bacd9c7ef1dd // indirect
	github.com/modern-go/reflect2 v1.0.2 // indirect
	github.com/oasdiff/yaml v0.0.0-20250309154309-f31be36b4037 // indirect
	github.com/oasdiff/yaml3 v0.0.0-20250309153720-d2182401db90 // indirect
	github.com/pb33f/jsonpath v0.1.2 // indirect
	github.com/pb33f/ordered-map/v2 v2.3.0 // indirect
	github.com/pelletier/go-toml/v2 v2.2.4 // indirect
	github.com/quic-go/qpack v0.6.0 // indirect
	github.com/quic-go/quic-go v0.57.1 // indirect
	github.com/santhosh-tekuri/jsonschema/v6 v6.0.2 // indirect
	github.com/twitchyliquid64/golang-asm v0.15.1 // indirect
	github.com/valyala/bytebufferpool v1.0.0 // indirect
	github.com/valyala/fasthttp v1.68.0 // indirect
	github.com/valyala/fasttemplate v1.2.2 // indirect
	github.com/woodsbury/decimal128 v1.4.0 // indirect
	go.uber.org/mock v0.6.0 // indirect
	go.yaml.in/yaml/v3 v3.0.4 // indirect
	golang.org/x/arch v0.23.0 // indirect
	golang.org/x/time v0.12.0 // indirect
	gopkg.in/yaml.v2 v2.2.8 // indirect
)

require (
	github.com/gabriel-vasile/mimetype v1.4.11 // indirect
	github.com/go-logr/logr v1.4.3 // indirect
	github.com/go-openapi/jsonpointer v0.22.3 // indirect
	github.com/go-playground/locales v0.14.1 // indirect
	github.com/go-playground/universal-translator v0.18.1 // indirect
	github.com/go-task/slim-sprig/v3 v3.0.0 // indirect
	github.com/google/go-cmp v0.7.0 // indirect
	github.com/google/pprof v0.0.0-20251206212654-f1b79c6b8239 // indirect
	github.com/inconshreveable/mousetrap v1.1.0 // indirect
	github.com/josharian/intern v1.0.0 // indirect
	github.com/leodido/go-urn v1.4.0 // indirect
	github.com/mailru/easyjson v0.9.1 // indirect
	github.com/mohae/deepcopy v0.0.0-20170929034955-c48cc78d4826 // indirect
	github.com/perimeterx/marshmallow v1.1.5 // indirect
	github.com/spf13/pflag v1.0.10 // indirect
	github.com/titanous/json5 v1.0.0
	github.com/ugorji/go/codec v1.3.1 // indirect
	golang.org/x/crypto v0.45.0 // indirect
	golang.org/x/mod v0.30.0 // indirect
	golang.org/x/net v0.47.0 // indirect
	golang.org/x/sync v0.18.0 // indirect
	golang.org/x/sys v0.38.0 // indirect
	golang.org/x/text v0.31.0 // indirect
	google.golang.org/protobuf v1.36.10 // indirect
)
