// Package lab materialises generated projects inside one scratch Go module and runs the real
// gleece CLI on them as child processes (stdio to files, watchdog via timeout -s QUIT).
package lab

import (
	"crypto/sha256"
	"encoding/hex"
	"fmt"
	"io/fs"
	"os"
	"path/filepath"
	"strings"
	"sync"

	"verif/harness/orch"
	"verif/harness/synth"
)

const ModPath = "verif.lab"

type Lab struct {
	Root string
	C    *orch.Ctx
	mu   sync.Mutex
	n    int
}

// New creates the lab module below the scratch dir: go.mod carries the same require blocks as
// /repo/go.mod (so engines, validator and runtime resolve to the cached versions) + /repo/go.sum.
func New(c *orch.Ctx) (*Lab, error) {
	root := filepath.Join(c.Work, "lab")
	if err := os.MkdirAll(root, 0o755); err != nil {
		return nil, err
	}
	repoMod, err := os.ReadFile(filepath.Join(c.Repo, "go.mod"))
	if err != nil {
		return nil, err
	}
	s := string(repoMod)
	i := strings.Index(s, "require (")
	if i < 0 {
		return nil, fmt.Errorf("no require block in /repo/go.mod")
	}
	mod := "module " + ModPath + "\n\ngo 1.24.7\n\n" + s[i:]
	if err := os.WriteFile(filepath.Join(root, "go.mod"), []byte(mod), 0o644); err != nil {
		return nil, err
	}
	sum, err := os.ReadFile(filepath.Join(c.Repo, "go.sum"))
	if err != nil {
		return nil, err
	}
	if err := os.WriteFile(filepath.Join(root, "go.sum"), sum, 0o644); err != nil {
		return nil, err
	}
	return &Lab{Root: root, C: c}, nil
}

func (l *Lab) Dir(p *synth.Project) string { return filepath.Join(l.Root, p.Name) }

// Write renders nothing itself: it stores the given files for the project.
func (l *Lab) Write(p *synth.Project, r *synth.Rendered) (string, error) {
	dir := l.Dir(p)
	if err := os.MkdirAll(dir, 0o755); err != nil {
		return "", err
	}
	return dir, r.WriteTo(dir)
}

type CLIResult struct {
	orch.ProcResult
	Argv []string
}

// Gleece runs the CLI in dir. Every run is logged before it starts.
func (l *Lab) Gleece(bin, dir, tag string, timeoutSec int, extraEnv []string, args ...string) CLIResult {
	l.mu.Lock()
	l.n++
	n := l.n
	f, _ := os.OpenFile(filepath.Join(l.C.Work, "runs.log"), os.O_APPEND|os.O_CREATE|os.O_WRONLY, 0o644)
	if f != nil {
		fmt.Fprintf(f, "%d\t%s\t%s\t%v\n", n, dir, tag, args)
		f.Close()
	}
	l.mu.Unlock()
	logDir := filepath.Join(l.C.Work, "logs")
	_ = os.MkdirAll(logDir, 0o755)
	argv := append([]string{bin}, args...)
	env := append(append([]string{}, l.C.GoEnv...), extraEnv...)
	pr := orch.Run(dir, env, timeoutSec, filepath.Join(logDir, fmt.Sprintf("%06d-%s", n, tag)), argv...)
	return CLIResult{ProcResult: pr, Argv: argv}
}

// Classify looks for crash signatures in the process output.
func Classify(pr orch.ProcResult) (crash string) {
	for _, s := range []string{pr.Stderr, pr.Stdout} {
		switch {
		case strings.Contains(s, "panic:"):
			return "panic"
		case strings.Contains(s, "fatal error:"):
			return "fatal-error"
		case strings.Contains(s, "goroutine ") && strings.Contains(s, "[running]"):
			return "goroutine-dump"
		}
	}
	return ""
}

type FileStat struct {
	Size int64
	Mode fs.FileMode
	Sum  string
	MTim int64
}

// Snapshot records every regular file below dir.
func Snapshot(dir string) map[string]FileStat {
	out := map[string]FileStat{}
	_ = filepath.WalkDir(dir, func(path string, d fs.DirEntry, err error) error {
		if err != nil || d.IsDir() {
			return nil
		}
		info, err := d.Info()
		if err != nil {
			return nil
		}
		b, _ := os.ReadFile(path)
		h := sha256.Sum256(b)
		rel, _ := filepath.Rel(dir, path)
		out[rel] = FileStat{Size: info.Size(), Mode: info.Mode(), Sum: hex.EncodeToString(h[:8]), MTim: info.ModTime().UnixNano()}
		return nil
	})
	return out
}

// Diff lists files created or modified between two snapshots.
func Diff(before, after map[string]FileStat) (created, modified []string) {
	for p, a := range after {
		b, ok := before[p]
		if !ok {
			created = append(created, p)
		} else if b.Sum != a.Sum || b.MTim != a.MTim {
			modified = append(modified, p)
		}
	}
	return
}

// Tail returns the last n bytes of s on one line.
func Tail(s string, n int) string {
	if len(s) > n {
		s = s[len(s)-n:]
	}
	return strings.ReplaceAll(s, "\n", " | ")
}

var ansi = strings.NewReplacer("\x1b[0m", "", "\x1b[31m", "", "\x1b[33m", "", "\x1b[1m", "")

func StripAnsi(s string) string {
	var sb strings.Builder
	for i := 0; i < len(s); i++ {
		if s[i] == 0x1b && i+1 < len(s) && s[i+1] == '[' {
			j := i + 2
			for j < len(s) && !(s[j] >= '@' && s[j] <= '~') {
				j++
			}
			i = j
			continue
		}
		sb.WriteByte(s[i])
	}
	return sb.String()
}
