// Package rng derives deterministic PRNG streams from VERIF_SEED, a property id and a stream name.
package rng

import (
	"hash/fnv"
	"math/rand"
)

func New(seed int64, parts ...string) *rand.Rand {
	h := fnv.New64a()
	for _, p := range parts {
		h.Write([]byte(p))
		h.Write([]byte{0})
	}
	return rand.New(rand.NewSource(seed*1_000_003 + int64(h.Sum64()&0x7fffffffffff)))
}

func Pick[T any](r *rand.Rand, xs []T) T { return xs[r.Intn(len(xs))] }

func Chance(r *rand.Rand, p float64) bool { return r.Float64() < p }
