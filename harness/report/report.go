// Package report holds the verdict plumbing shared by every monitor: the result record a monitor
// produces, known-finding matching, replay files, the evidence file and the exit code.
package report

import (
	"crypto/sha256"
	"encoding/hex"
	"encoding/json"
	"fmt"
	"os"
	"path/filepath"
	"sort"
	"strings"
	"time"
)

// Violation is one refuting observation. Kind and Where identify the *cause* (used for
// known-finding matching); Detail is for humans; Case is the replayable input.
type Violation struct {
	Kind   string            `json:"kind"`
	Where  map[string]string `json:"where,omitempty"`
	Detail string            `json:"detail"`
	Case   any               `json:"case,omitempty"`
}

// Result is what a monitor hands back to the orchestrator.
type Result struct {
	Property     string         `json:"property"`
	Evaluations  int            `json:"evaluations"`
	Distinct     int            `json:"distinct_nontrivial"`
	Rule         string         `json:"rule"`
	Samples      []any          `json:"samples"`
	Exhaustive   bool           `json:"exhaustive,omitempty"`
	Extras       map[string]any `json:"extras,omitempty"`
	Violations   []Violation    `json:"violations,omitempty"`
	Inconclusive map[string]int `json:"inconclusive,omitempty"`
	Assumptions  []string       `json:"assumptions,omitempty"`
	// Fatal is set when the run observed too little to say anything (exit 3).
	Fatal string `json:"fatal,omitempty"`
}

func (r *Result) AddViolation(kind string, where map[string]string, detail string, c any) {
	r.Violations = append(r.Violations, Violation{Kind: kind, Where: where, Detail: detail, Case: c})
}

func (r *Result) Inc(reason string) {
	if r.Inconclusive == nil {
		r.Inconclusive = map[string]int{}
	}
	r.Inconclusive[reason]++
}

func (r *Result) Extra(k string, v any) {
	if r.Extras == nil {
		r.Extras = map[string]any{}
	}
	r.Extras[k] = v
}

// Merge folds another result (e.g. from a child batch) into r.
func (r *Result) Merge(o *Result) {
	r.Evaluations += o.Evaluations
	r.Violations = append(r.Violations, o.Violations...)
	for k, v := range o.Inconclusive {
		if r.Inconclusive == nil {
			r.Inconclusive = map[string]int{}
		}
		r.Inconclusive[k] += v
	}
	if len(r.Samples) < 6 {
		r.Samples = append(r.Samples, o.Samples...)
		if len(r.Samples) > 6 {
			r.Samples = r.Samples[:6]
		}
	}
}

// Distincter counts distinct feature vectors.
type Distincter struct{ seen map[string]struct{} }

func NewDistincter() *Distincter { return &Distincter{seen: map[string]struct{}{}} }
func (d *Distincter) Add(parts ...any) {
	h := sha256.Sum256([]byte(fmt.Sprint(parts...)))
	d.seen[string(h[:8])] = struct{}{}
}
func (d *Distincter) N() int { return len(d.seen) }

// ---- known findings ----

type Finding struct {
	Id        string `json:"id"`
	Property  string `json:"property"`
	Status    string `json:"status"` // "known" | "fixed"
	Signature struct {
		Kind  string            `json:"kind"`
		Where map[string]string `json:"where"`
	} `json:"signature"`
	WhatFails    string `json:"what_fails"`
	MinimalInput string `json:"minimal_input,omitempty"`
	Commit       string `json:"commit,omitempty"`
}

type findingsFile struct {
	Findings []Finding `json:"findings"`
}

func LoadFindings(path string) ([]Finding, error) {
	b, err := os.ReadFile(path)
	if err != nil {
		if os.IsNotExist(err) {
			return nil, nil
		}
		return nil, err
	}
	var f findingsFile
	if err := json.Unmarshal(b, &f); err != nil {
		return nil, err
	}
	return f.Findings, nil
}

func matches(f Finding, prop string, v Violation) bool {
	if f.Status != "known" || f.Property != prop || f.Signature.Kind != v.Kind {
		return false
	}
	for k, want := range f.Signature.Where {
		if v.Where[k] != want {
			return false
		}
	}
	return true
}

// Finish prints verdict lines, writes replays and the evidence file, and returns the exit code.
func Finish(verifDir string, res *Result, tier string, seed int64, started time.Time) int {
	findings, err := LoadFindings(filepath.Join(verifDir, "known_findings.json"))
	if err != nil {
		fmt.Printf("ERROR cannot read known_findings.json: %v\n", err)
		return 2
	}
	prop := res.Property
	knownHits := map[string]int{}
	var fresh []Violation
	for _, v := range res.Violations {
		hit := false
		for _, f := range findings {
			if matches(f, prop, v) {
				knownHits[f.Id]++
				hit = true
				// developer aid: VERIF_WRITE_KNOWN=1 stores the first witness of each known finding
				// as its minimal_input file (known_findings.json itself is never written)
				if os.Getenv("VERIF_WRITE_KNOWN") != "" && knownHits[f.Id] == 1 && f.MinimalInput != "" {
					mp := filepath.Join(verifDir, f.MinimalInput)
					if _, err := os.Stat(mp); err != nil {
						_ = os.MkdirAll(filepath.Dir(mp), 0o755)
						body := map[string]any{"property": prop, "finding": f.Id, "kind": v.Kind, "where": v.Where, "detail": v.Detail, "case": v.Case}
						if b, err := json.MarshalIndent(body, "", " "); err == nil {
							_ = os.WriteFile(mp, b, 0o644)
						}
					}
				}
				break
			}
		}
		if !hit {
			fresh = append(fresh, v)
		}
	}
	ids := make([]string, 0, len(knownHits))
	for id := range knownHits {
		ids = append(ids, id)
	}
	sort.Strings(ids)
	for _, id := range ids {
		for _, f := range findings {
			if f.Id == id {
				fmt.Printf("KNOWN-FINDING: property=%s %s [%s, %d hit(s)]\n", prop, f.WhatFails, id, knownHits[id])
			}
		}
	}
	// replays: at most 3 per distinct kind, 12 in total
	perKind := map[string]int{}
	written := 0
	replayDir := filepath.Join(verifDir, "replays", prop)
	// replays of an earlier run of the same tier and seed are stale now (committed replays of recorded
	// findings carry other names)
	if old, _ := filepath.Glob(filepath.Join(replayDir, fmt.Sprintf("%s-seed%d-*.json", tier, seed))); len(old) > 0 {
		for _, o := range old {
			_ = os.Remove(o)
		}
	}
	for i, v := range fresh {
		path := "(not written: replay cap reached)"
		if perKind[v.Kind] < 3 && written < 12 {
			_ = os.MkdirAll(replayDir, 0o755)
			name := fmt.Sprintf("%s-seed%d-%s-%d.json", tier, seed, sanitize(v.Kind), i)
			p := filepath.Join(replayDir, name)
			body := map[string]any{"property": prop, "seed": seed, "tier": tier, "kind": v.Kind, "where": v.Where, "detail": v.Detail, "case": v.Case}
			if b, err := json.MarshalIndent(body, "", " "); err == nil {
				if os.WriteFile(p, b, 0o644) == nil {
					path = p
					perKind[v.Kind]++
					written++
				}
			}
		}
		if i < 40 || os.Getenv("VERIF_VERBOSE") != "" {
			fmt.Printf("VIOLATION property=%s replay=%s kind=%s %s\n", prop, path, v.Kind, oneLine(v.Detail))
		}
	}
	if len(fresh) > 40 {
		fmt.Printf("... %d further violations not printed\n", len(fresh)-40)
	}

	// evidence
	cov := map[string]any{
		"evaluations":         res.Evaluations,
		"distinct_nontrivial": res.Distinct,
		"rule":                res.Rule,
		"samples":             res.Samples,
	}
	if res.Exhaustive {
		cov["exhaustive"] = true
	}
	for k, v := range res.Extras {
		cov[k] = v
	}
	if len(res.Inconclusive) > 0 {
		cov["inconclusive"] = res.Inconclusive
	}
	if len(knownHits) > 0 {
		cov["known_finding_hits"] = knownHits
	}
	kinds := map[string]int{}
	for _, v := range fresh {
		kinds[v.Kind]++
	}
	if len(kinds) > 0 {
		cov["violation_kinds"] = kinds
	}
	ev := map[string]any{
		"property_id": prop,
		"tier":        tier,
		"seed":        seed,
		"level":       "exploration",
		"coverage":    cov,
		"assumptions": res.Assumptions,
		"wall_s":      time.Since(started).Seconds(),
		"violations":  len(fresh),
	}
	if len(res.Assumptions) == 0 {
		ev["assumptions"] = []string{}
	}
	_ = os.MkdirAll(filepath.Join(verifDir, "evidence"), 0o755)
	b, _ := json.MarshalIndent(ev, "", " ")
	if err := os.WriteFile(filepath.Join(verifDir, "evidence", prop+".json"), append(b, '\n'), 0o644); err != nil {
		fmt.Printf("ERROR cannot write evidence: %v\n", err)
		return 2
	}
	fmt.Printf("SUMMARY property=%s tier=%s seed=%d evaluations=%d distinct_nontrivial=%d violations=%d known_hits=%d inconclusive=%v wall=%.1fs\n",
		prop, tier, seed, res.Evaluations, res.Distinct, len(fresh), len(knownHits), res.Inconclusive, time.Since(started).Seconds())
	if len(fresh) > 0 {
		return 1
	}
	if res.Fatal != "" {
		fmt.Printf("INCONCLUSIVE property=%s %s\n", prop, res.Fatal)
		return 3
	}
	if res.Evaluations == 0 || res.Distinct < 2 {
		fmt.Printf("INCONCLUSIVE property=%s the run observed nothing non-trivial\n", prop)
		return 3
	}
	return 0
}

func sanitize(s string) string {
	s = strings.Map(func(r rune) rune {
		if r >= 'a' && r <= 'z' || r >= 'A' && r <= 'Z' || r >= '0' && r <= '9' || r == '-' {
			return r
		}
		return '_'
	}, s)
	if len(s) > 40 {
		s = s[:40]
	}
	return s
}

func oneLine(s string) string {
	s = strings.ReplaceAll(s, "\n", " | ")
	if len(s) > 400 {
		s = s[:400] + "…"
	}
	return s
}

// Hash is a short stable digest used for feature vectors and file identity.
func Hash(b []byte) string {
	h := sha256.Sum256(b)
	return hex.EncodeToString(h[:8])
}

// ReadResult / WriteResult move a Result between a child monitor and the orchestrator.
func WriteResult(path string, r *Result) error {
	b, err := json.Marshal(r)
	if err != nil {
		return err
	}
	return os.WriteFile(path, b, 0o644)
}

func ReadResult(path string) (*Result, error) {
	b, err := os.ReadFile(path)
	if err != nil {
		return nil, err
	}
	var r Result
	if err := json.Unmarshal(b, &r); err != nil {
		return nil, err
	}
	return &r, nil
}
