// Package c16 monitors annotations.NewAnnotationHolder by round trip: the generator owns the
// tuple (name, value, properties, description), renders it with its own JSON5 printer and compares
// what the real parser hands back (DESIGN.md C16, A.9).
package c16

import (
	"fmt"
	"go/ast"
	"go/parser"
	"go/token"
	"math/rand"
	"reflect"
	"strconv"
	"strings"
	"unicode/utf8"

	"github.com/gopher-fleece/gleece/v2/common"
	"github.com/gopher-fleece/gleece/v2/core/annotations"
	"github.com/gopher-fleece/gleece/v2/gast"

	"verif/harness/report"
	"verif/harness/rng"
)

type Line struct {
	Class string `json:"class"` // "attr" | "free" | "lookalike" | "malformed"
	Text  string `json:"text"`  // the rendered comment text, starting with //
	// expectation for class attr
	Name     string         `json:"name,omitempty"`
	Value    string         `json:"value,omitempty"`
	HasProps bool           `json:"has_props,omitempty"`
	Props    map[string]any `json:"props,omitempty"`
	Desc     string         `json:"desc,omitempty"`
	// expectation for free / lookalike
	Free string `json:"free,omitempty"`
	// generator-attested features (used for known-finding signatures)
	// Trail: blanks appended after the description in Text (whom they belong to is not stated; only a
	// uniform treatment within one block is required)
	Trail         string `json:"trail,omitempty"`
	DescHasCloser bool   `json:"desc_has_closer,omitempty"` // description contains "})" or "}" followed later by ")"
}

type Block struct {
	Lines []Line `json:"lines"`
}

// ---------- generators ----------

var nameList = []string{"Query", "Path", "Header", "Body", "FormField", "Route", "Method", "Security", "Tag", "Description", "Deprecated", "Hidden", "Response", "ErrorResponse", "TemplateContext", "X", "Foo_1", "a", "Z9", "_u"}
var valueAlphabet = []rune("abcdefXYZ019_-/\\{} ")
var descWords = []string{"The", "id", "of", "user", "(optional)", "{docs}", "see", "über", "日本語", "данные", "a,b", "x:y", "\"quoted\"", "'s", "[1]", "@mention", "//", "*", "100%", "—", "🙂", "})", "{", "}", ")", "(", "({})"}
var strAlphabet = []string{"a", "b", "Z", "0", " ", "{", "}", "(", ")", ",", ":", "[", "]", "'", "\"", "\\", "/", "@", "é", "日", "-", "_", ".", "}) ", "})", "({", ") }"}

func genValue(r *rand.Rand) string {
	n := 1 + r.Intn(8)
	var sb strings.Builder
	for i := 0; i < n; i++ {
		c := valueAlphabet[r.Intn(len(valueAlphabet))]
		if (i == 0 || i == n-1) && c == ' ' {
			c = 'v' // no leading/trailing blanks: the statement does not say whether they belong to the value
		}
		sb.WriteRune(c)
	}
	return sb.String()
}

func genDesc(r *rand.Rand) (string, bool) {
	n := 1 + r.Intn(6)
	parts := make([]string, n)
	for i := range parts {
		parts[i] = descWords[r.Intn(len(descWords))]
	}
	d := strings.Join(parts, " ")
	return d, hasCloser(d)
}

// hasCloser: the description contains a '}' that is (possibly after blanks only… no: anywhere later)
// followed by ')': the shape that can be confused with the end of a properties object.
func hasCloser(d string) bool {
	return strings.Contains(d, "})")
}

func genString(r *rand.Rand) string {
	n := r.Intn(7)
	var sb strings.Builder
	for i := 0; i < n; i++ {
		sb.WriteString(strAlphabet[r.Intn(len(strAlphabet))])
	}
	return sb.String()
}

func genJSON(r *rand.Rand, depth int) any {
	k := r.Intn(7)
	if depth <= 0 && k >= 5 {
		k = r.Intn(5)
	}
	switch k {
	case 0:
		return genString(r)
	case 1:
		if r.Intn(2) == 0 {
			return float64(r.Intn(2000) - 1000)
		}
		f, _ := strconv.ParseFloat(fmt.Sprintf("%d.%d", r.Intn(100)-50, r.Intn(1000)), 64)
		return f
	case 2:
		return r.Intn(2) == 0
	case 3:
		return nil
	case 4:
		return genString(r)
	case 5:
		n := r.Intn(4)
		arr := make([]any, n)
		for i := range arr {
			arr[i] = genJSON(r, depth-1)
		}
		return arr
	default:
		return genObject(r, depth-1)
	}
}

var keyList = []string{"name", "validate", "scopes", "a", "b_1", "$x", "with space", "k-dash", "é", "0n", "{", ")"}

func genObject(r *rand.Rand, depth int) map[string]any {
	n := r.Intn(4)
	m := map[string]any{}
	for i := 0; i < n; i++ {
		m[keyList[r.Intn(len(keyList))]] = genJSON(r, depth)
	}
	return m
}

// ---- JSON5 printer (ours) ----

func isIdent(s string) bool {
	if s == "" {
		return false
	}
	for i, c := range s {
		ok := c == '_' || c == '$' || c >= 'a' && c <= 'z' || c >= 'A' && c <= 'Z' || (i > 0 && c >= '0' && c <= '9')
		if !ok {
			return false
		}
	}
	return true
}

func quote(r *rand.Rand, s string) string {
	q := byte('"')
	if r.Intn(2) == 0 {
		q = '\''
	}
	var sb strings.Builder
	sb.WriteByte(q)
	for _, c := range s {
		switch {
		case c == rune(q) || c == '\\':
			sb.WriteByte('\\')
			sb.WriteRune(c)
		default:
			sb.WriteRune(c)
		}
	}
	sb.WriteByte(q)
	return sb.String()
}

func sp(r *rand.Rand) string {
	if r.Intn(2) == 0 {
		return " "
	}
	return ""
}

func printJSON5(r *rand.Rand, v any) string {
	switch t := v.(type) {
	case nil:
		return "null"
	case bool:
		return strconv.FormatBool(t)
	case float64:
		return strconv.FormatFloat(t, 'f', -1, 64)
	case string:
		return quote(r, t)
	case []any:
		var sb strings.Builder
		sb.WriteString("[" + sp(r))
		for i, e := range t {
			if i > 0 {
				sb.WriteString("," + sp(r))
			}
			sb.WriteString(printJSON5(r, e))
		}
		if len(t) > 0 && r.Intn(3) == 0 {
			sb.WriteString(",")
		}
		sb.WriteString(sp(r) + "]")
		return sb.String()
	case map[string]any:
		keys := make([]string, 0, len(t))
		for k := range t {
			keys = append(keys, k)
		}
		// deterministic order derived from the PRNG
		for i := len(keys) - 1; i > 0; i-- {
			// sort first for determinism, then shuffle with r
			_ = i
		}
		sortStrings(keys)
		r.Shuffle(len(keys), func(i, j int) { keys[i], keys[j] = keys[j], keys[i] })
		var sb strings.Builder
		sb.WriteString("{" + sp(r))
		for i, k := range keys {
			if i > 0 {
				sb.WriteString("," + sp(r))
			}
			if isIdent(k) && r.Intn(2) == 0 {
				sb.WriteString(k)
			} else {
				sb.WriteString(quote(r, k))
			}
			sb.WriteString(":" + sp(r))
			sb.WriteString(printJSON5(r, t[k]))
		}
		if len(keys) > 0 && r.Intn(3) == 0 {
			sb.WriteString(",")
		}
		sb.WriteString(sp(r) + "}")
		return sb.String()
	}
	panic(fmt.Sprintf("unprintable %T", v))
}

func sortStrings(s []string) {
	for i := 1; i < len(s); i++ {
		for j := i; j > 0 && s[j] < s[j-1]; j-- {
			s[j], s[j-1] = s[j-1], s[j]
		}
	}
}

func genAttrLine(r *rand.Rand, forceName string) Line {
	l := Line{Class: "attr"}
	l.Name = nameList[r.Intn(len(nameList))]
	if forceName != "" {
		l.Name = forceName
	}
	var sb strings.Builder
	sb.WriteString("// @" + l.Name)
	if r.Intn(4) != 0 {
		l.Value = genValue(r)
		sb.WriteString("(" + l.Value)
		if r.Intn(2) == 0 {
			l.HasProps = true
			l.Props = genObject(r, 2)
			sb.WriteString("," + sp(r) + printJSON5(r, l.Props))
		}
		sb.WriteString(")")
	}
	if r.Intn(2) == 0 {
		l.Desc, l.DescHasCloser = genDesc(r)
		sb.WriteString(" " + l.Desc)
	}
	l.Text = sb.String()
	return l
}

func genFreeLine(r *rand.Rand) Line {
	l := Line{Class: "free"}
	switch r.Intn(6) {
	case 0:
		l.Free = ""
		l.Text = "//"
	default:
		d, _ := genDesc(r)
		if strings.HasPrefix(d, "@") {
			d = "x " + d // "// @mention …" would be an annotation line
		}
		l.Free = d
		if r.Intn(4) == 0 && !strings.HasPrefix(d, " ") {
			l.Text = "//" + d
			if strings.HasPrefix(l.Text, "// @") {
				l.Text = "// " + d
			}
		} else {
			l.Text = "// " + d
		}
	}
	return l
}

// lookalikes are NOT of the form of A.9 by construction
func genLookalike(r *rand.Rand) Line {
	l := Line{Class: "lookalike"}
	v := genValue(r)
	switch r.Intn(7) {
	case 0:
		l.Text = "//@Query(" + v + ")" // no blank after the slashes
	case 1:
		l.Text = "//  @Query(" + v + ")" // two blanks
	case 2:
		l.Text = "// @Query(" + v + ",x)" // a value character outside the alphabet
	case 3:
		l.Text = "// @Query(" + v // unclosed parenthesis
	case 4:
		l.Text = "// @Query()" // empty parentheses
	case 5:
		l.Text = "// @ Query(" + v + ")" // blank after @
	case 6:
		l.Text = "// Query(" + v + ") @Path(p)" // no leading @
	}
	l.Free = strings.Trim(strings.TrimPrefix(l.Text, "//"), " ")
	return l
}

var malformedObjects = []string{
	`{a:}`, `{a:1,,}`, `{"a" 1}`, `{a:[1,2}`, `{a:{b:1}`, `{a:'x}`, `{:1}`, `{a:1 b:2}`, `{a:tru}`, `{a:01x}`, `{[}`, `{a:"x\q"}`, `{{}}`,
}

func genMalformed(r *rand.Rand) Line {
	l := Line{Class: "malformed"}
	l.Name = "Query"
	l.Value = genValue(r)
	l.Text = "// @Query(" + l.Value + ", " + malformedObjects[r.Intn(len(malformedObjects))] + ")"
	if r.Intn(2) == 0 {
		l.Text += " trailing text"
	}
	return l
}

func genBlock(r *rand.Rand, mode int) Block {
	n := 1 + r.Intn(12)
	b := Block{}
	usedDescription := false
	for i := 0; i < n; i++ {
		var l Line
		switch k := r.Intn(10); {
		case k < 5:
			l = genAttrLine(r, "")
			if l.Name == "Description" {
				if usedDescription {
					l = genAttrLine(r, "Query")
				}
				usedDescription = true
			}
		case k < 8:
			l = genFreeLine(r)
		default:
			l = genLookalike(r)
		}
		b.Lines = append(b.Lines, l)
	}
	if mode == 0 && r.Intn(12) == 0 {
		// a blank (ASCII or not) after the closing parenthesis of annotation lines WITHOUT description: whether it
		// is an (all blank) description or nothing is not stated, but the line still is an annotation line
		trail := []string{" ", "\t", "\u00a0", "\u3000", " \u2003"}[r.Intn(5)]
		for i := range b.Lines {
			l := &b.Lines[i]
			if l.Class == "attr" && l.Desc == "" && l.Name != "Description" && strings.HasSuffix(l.Text, ")") {
				l.Trail = trail
				l.Text += trail
			}
		}
	} else if mode == 0 && r.Intn(8) == 0 {
		// trailing blanks on every described annotation line of this block
		trail := []string{" ", "\t", "  \t "}[r.Intn(3)]
		for i := range b.Lines {
			l := &b.Lines[i]
			if l.Class == "attr" && l.Desc != "" && !strings.HasSuffix(l.Desc, " ") && l.Name != "Description" {
				l.Trail = trail
				l.Text += trail
			}
		}
	}
	if mode == 1 { // exactly one malformed line
		at := r.Intn(len(b.Lines))
		b.Lines[at] = genMalformed(r)
	}
	return b
}

// ---------- oracle ----------

func expectedDescription(b Block) string {
	for _, l := range b.Lines {
		if l.Class == "attr" && l.Name == "Description" {
			return l.Desc
		}
	}
	var free []string
	last := -1
	for i, l := range b.Lines {
		if l.Class == "free" || l.Class == "lookalike" {
			if i > last+1 {
				break
			}
			free = append(free, l.Free)
			last++
		}
	}
	for len(free) > 0 && free[len(free)-1] == "" {
		free = free[:len(free)-1]
	}
	return strings.Join(free, "\n")
}

func propsEqual(got map[string]any, want map[string]any) bool {
	if len(got) == 0 && len(want) == 0 {
		return true
	}
	return reflect.DeepEqual(got, want)
}

func toCommentBlock(b Block) gast.CommentBlock {
	cb := gast.CommentBlock{FileName: "/virtual/file.go"}
	for i, l := range b.Lines {
		cb.Comments = append(cb.Comments, gast.CommentNode{
			Text:  l.Text,
			Index: i,
			Position: gast.CommentPosition{
				StartLine: 10 + i, EndLine: 10 + i, StartCol: 0, EndCol: utf8.RuneCountInString(l.Text),
			},
		})
	}
	cb.Range = common.ResolvedRange{StartLine: 10, EndLine: 10 + len(b.Lines) - 1}
	return cb
}

func whereOf(b Block) map[string]string {
	w := map[string]string{"desc_has_closer_after_props": "false"}
	for _, l := range b.Lines {
		if l.Class == "attr" && l.DescHasCloser && l.HasProps {
			w["desc_has_closer_after_props"] = "true"
		}
	}
	return w
}

func Check(res *report.Result, b Block) {
	res.Evaluations++
	var holder annotations.AnnotationHolder
	var err error
	func() {
		defer func() {
			if rec := recover(); rec != nil {
				err = fmt.Errorf("PANIC: %v", rec)
				res.AddViolation("panic", nil, fmt.Sprint(rec), b)
			}
		}()
		holder, err = annotations.NewAnnotationHolder(toCommentBlock(b), annotations.CommentSourceRoute)
	}()
	if err != nil && strings.HasPrefix(err.Error(), "PANIC") {
		return
	}
	hasMalformed := false
	for _, l := range b.Lines {
		if l.Class == "malformed" {
			hasMalformed = true
		}
	}
	if hasMalformed {
		if err == nil {
			res.AddViolation("malformed-json5-not-reported", nil, "a line with a malformed properties object produced no error", b)
		}
		return
	}
	if err != nil {
		res.AddViolation("wellformed-block-rejected", whereOf(b), "error on a well-formed block: "+err.Error(), b)
		return
	}
	var wantAttrs []Line
	var wantFree []Line
	var wantFreeIdx []int
	for i, l := range b.Lines {
		if l.Class == "attr" {
			wantAttrs = append(wantAttrs, l)
		} else {
			wantFree = append(wantFree, l)
			wantFreeIdx = append(wantFreeIdx, i)
		}
	}
	got := holder.Attributes()
	if len(got) != len(wantAttrs) {
		res.AddViolation("attribute-count", whereOf(b), fmt.Sprintf("%d attributes parsed, %d annotation lines written", len(got), len(wantAttrs)), b)
		return
	}
	trailPolicy := map[string]string{} // policy -> line that showed it
	for i, w := range wantAttrs {
		g := got[i]
		if w.Trail != "" && w.Desc == "" {
			if g.Description == w.Trail || strings.TrimSpace(g.Description) == "" {
				g.Description = ""
			}
		} else if w.Trail != "" {
			switch g.Description {
			case w.Desc:
				trailPolicy["trimmed"] = w.Text
			case w.Desc + w.Trail:
				trailPolicy["kept"] = w.Text
				g.Description = w.Desc
			}
			if len(trailPolicy) > 1 {
				res.AddViolation("trailing-blanks-treated-differently-within-one-block", whereOf(b), fmt.Sprintf("the description of %q keeps its trailing blanks while that of %q loses them", trailPolicy["kept"], trailPolicy["trimmed"]), b)
				return
			}
		}
		if g.Name != w.Name || g.Value != w.Value || g.Description != w.Desc || !propsEqual(g.Properties, w.Props) {
			res.AddViolation("attribute-mismatch", whereOf(b),
				fmt.Sprintf("line %q parsed as name=%q value=%q props=%v desc=%q; written name=%q value=%q props=%v desc=%q", w.Text, g.Name, g.Value, g.Properties, g.Description, w.Name, w.Value, w.Props, w.Desc), b)
			return
		}
		// typed access helpers
		if s, ok := w.Props["name"].(string); ok {
			p, err := annotations.GetCastProperty[string](&g, "name")
			if err != nil || p == nil || *p != s {
				res.AddViolation("cast-property-mismatch", nil, fmt.Sprintf("GetCastProperty[string](name) = %v, %v; written %q", p, err, s), b)
				return
			}
		}
		if arr, ok := w.Props["scopes"].([]any); ok {
			allStr := true
			want := []string{}
			for _, e := range arr {
				s, ok := e.(string)
				allStr = allStr && ok
				want = append(want, s)
			}
			if allStr {
				p, err := annotations.GetCastProperty[[]string](&g, "scopes")
				if err != nil || p == nil || !reflect.DeepEqual(append([]string{}, *p...), want) {
					res.AddViolation("cast-property-mismatch", nil, fmt.Sprintf("GetCastProperty[[]string](scopes) = %v, %v; written %v", p, err, want), b)
					return
				}
			}
		}
	}
	gotFree := holder.NonAttributeComments()
	if len(gotFree) != len(wantFree) {
		res.AddViolation("free-text-count", nil, fmt.Sprintf("%d free-text lines kept, %d written", len(gotFree), len(wantFree)), b)
		return
	}
	for i, w := range wantFree {
		if gotFree[i].Value != w.Free || gotFree[i].Index != wantFreeIdx[i] {
			res.AddViolation("free-text-mismatch", nil, fmt.Sprintf("free line %q kept as %q at index %d (written at %d)", w.Text, gotFree[i].Value, gotFree[i].Index, wantFreeIdx[i]), b)
			return
		}
	}
	if d, want := holder.GetDescription(), expectedDescription(b); d != want {
		res.AddViolation("description-mismatch", nil, fmt.Sprintf("GetDescription()=%q, expected %q", d, want), b)
	}
}

// CheckParsed drives the same block through the path the pipeline uses: the lines become the doc comment
// of a function in real Go source, go/parser + a FileSet produce the comment group, and
// gast.MapDocListToCommentBlock turns it into the CommentBlock. The result must agree with the directly
// constructed block (same attributes, free text and entity description). With lead=true the group starts
// with a two-row /* */ comment: the attributes must not change and, absent @Description, the leading
// free-text lines of the block must still end the entity description (they stay contiguous in the source).
func CheckParsed(res *report.Result, b Block, lead bool) {
	var sb strings.Builder
	sb.WriteString("package p\n\n")
	if lead {
		sb.WriteString("/* lead block\n   second row */\n")
	}
	for _, l := range b.Lines {
		sb.WriteString(l.Text)
		sb.WriteString("\n")
	}
	sb.WriteString("func F() {}\n")
	fset := token.NewFileSet()
	f, perr := parser.ParseFile(fset, "/virtual/file.go", sb.String(), parser.ParseComments)
	if perr != nil {
		res.Inc("parsed stage: rendered block is not Go source (skipped)")
		return
	}
	var doc *ast.CommentGroup
	for _, d := range f.Decls {
		if fd, ok := d.(*ast.FuncDecl); ok && fd.Name.Name == "F" {
			doc = fd.Doc
		}
	}
	off := 0
	if lead {
		off = 1
	}
	if doc == nil || len(doc.List) != len(b.Lines)+off {
		res.Inc("parsed stage: lines did not form one doc group (skipped)")
		return
	}
	for i, l := range b.Lines {
		if doc.List[i+off].Text != l.Text {
			res.Inc("parsed stage: scanner normalised a line (skipped)")
			return
		}
	}
	res.Evaluations++
	mk := func(cb gast.CommentBlock) (h annotations.AnnotationHolder, err error) {
		defer func() {
			if rec := recover(); rec != nil {
				err = fmt.Errorf("PANIC: %v", rec)
			}
		}()
		return annotations.NewAnnotationHolder(cb, annotations.CommentSourceRoute)
	}
	where := map[string]string{"stage": "parsed", "lead": fmt.Sprint(lead)}
	hd, errd := mk(toCommentBlock(b))
	hp, errp := mk(gast.MapDocListToCommentBlock(doc.List, fset))
	if errp != nil && strings.HasPrefix(errp.Error(), "PANIC") {
		res.AddViolation("panic", where, errp.Error(), b)
		return
	}
	if (errd == nil) != (errp == nil) {
		res.AddViolation("parsed-path-differs", where, fmt.Sprintf("directly built block: err=%v; same lines through go/parser + MapDocListToCommentBlock: err=%v", errd, errp), b)
		return
	}
	if errd != nil {
		return
	}
	ad, ap := hd.Attributes(), hp.Attributes()
	if len(ad) != len(ap) {
		res.AddViolation("parsed-path-differs", where, fmt.Sprintf("%d attributes from the parsed group, %d from the same lines built directly", len(ap), len(ad)), b)
		return
	}
	for i := range ad {
		if ad[i].Name != ap[i].Name || ad[i].Value != ap[i].Value || ad[i].Description != ap[i].Description || !propsEqual(ad[i].Properties, ap[i].Properties) {
			res.AddViolation("parsed-path-differs", where, fmt.Sprintf("attribute %d: parsed group gives name=%q value=%q props=%v desc=%q, the same line built directly name=%q value=%q props=%v desc=%q", i, ap[i].Name, ap[i].Value, ap[i].Properties, ap[i].Description, ad[i].Name, ad[i].Value, ad[i].Properties, ad[i].Description), b)
			return
		}
	}
	fd, fp := hd.NonAttributeComments(), hp.NonAttributeComments()
	if len(fp) != len(fd)+off {
		res.AddViolation("parsed-path-differs", where, fmt.Sprintf("%d free-text comments from the parsed group, %d(+%d) expected", len(fp), len(fd), off), b)
		return
	}
	for i := range fd {
		if fp[i+off].Value != fd[i].Value || fp[i+off].Index != fd[i].Index+off {
			res.AddViolation("parsed-path-differs", where, fmt.Sprintf("free text %d: parsed group keeps %q at index %d, directly built %q at index %d(+%d)", i, fp[i+off].Value, fp[i+off].Index, fd[i].Value, fd[i].Index, off), b)
			return
		}
	}
	dd, dp := hd.GetDescription(), hp.GetDescription()
	switch {
	case !lead || hd.GetFirst(annotations.GleeceAnnotationDescription) != nil:
		if dd != dp {
			res.AddViolation("parsed-path-differs", where, fmt.Sprintf("GetDescription()=%q from the parsed group, %q from the same lines built directly", dp, dd), b)
		}
	case dd != "" && !strings.HasSuffix(dp, "\n"+dd):
		res.AddViolation("description-truncated-after-block-comment", where, fmt.Sprintf("the group is a two-row /* */ comment followed by the block's lines; GetDescription()=%q does not end with the block's leading free text %q", dp, dd), b)
	}
}

func shape(b Block) string {
	var sb strings.Builder
	for _, l := range b.Lines {
		sb.WriteString(l.Class[:1])
		if l.Class == "attr" {
			if l.Value != "" {
				sb.WriteString("v")
			}
			if l.HasProps {
				sb.WriteString(fmt.Sprintf("p%d", len(l.Props)))
			}
			if l.Desc != "" {
				sb.WriteString("d")
			}
			if l.DescHasCloser {
				sb.WriteString("!")
			}
		}
		sb.WriteString(".")
	}
	return sb.String()
}

func Run(seed int64, tier string) *report.Result {
	res := &report.Result{Property: "C16"}
	n := 20000
	if tier == "thorough" {
		n = 1000000
	}
	r := rng.New(seed, "C16")
	dist := report.NewDistincter()
	classCount := map[string]int{}
	for i := 0; i < n && len(res.Violations) < 3000; i++ {
		mode := 0
		if i%10 == 9 {
			mode = 1
		}
		b := genBlock(r, mode)
		Check(res, b)
		if i%4 == 0 {
			CheckParsed(res, b, i%8 == 0)
		}
		dist.Add(shape(b))
		for _, l := range b.Lines {
			classCount[l.Class]++
		}
		if len(res.Samples) < 4 && i%5 == 1 {
			var texts []string
			for _, l := range b.Lines {
				texts = append(texts, l.Text)
			}
			res.Samples = append(res.Samples, texts)
		}
	}
	res.Distinct = dist.N()
	res.Rule = "blocks of 1..12 comment lines drawn from four classes (annotation lines of the documented form rendered from a generator-owned tuple with our own JSON5 printer; free text; look-alike lines that are not of the form; one malformed-properties line in every 10th block); every 4th block is additionally rendered as the doc comment of a function in Go source, parsed with go/parser and a FileSet, mapped by gast.MapDocListToCommentBlock and compared with the directly built block (every 8th with a two-row /* */ comment leading the group); distinct = distinct block shapes (line classes x presence of value/properties/description x properties size)"
	res.Extra("lines_by_class", classCount)
	res.Assumptions = []string{"annotation line form = DESIGN.md A.9; values carry no leading/trailing blanks and no blank precedes the comma (the statement does not say whom such blanks belong to)", "malformed property objects keep their outer braces so that the line is still 'of the form'"}
	return res
}

func Replay(b Block) *report.Result {
	res := &report.Result{Property: "C16"}
	Check(res, b)
	CheckParsed(res, b, false)
	CheckParsed(res, b, true)
	res.Distinct = 2
	return res
}
