// Package pipe drives the real GleecePipeline in-process on one generated project per process
// (gleece's packages.Load needs the cwd inside the analysed module).
package pipe

import (
	"crypto/sha256"
	"encoding/json"
	"fmt"
	"os"
	"sort"
	"strings"

	"github.com/gopher-fleece/gleece/v2/cmd"
	"github.com/gopher-fleece/gleece/v2/common"
	"github.com/gopher-fleece/gleece/v2/core/pipeline"
	"github.com/gopher-fleece/gleece/v2/core/validators/diagnostics"
	"github.com/gopher-fleece/gleece/v2/generator/swagen"
	"github.com/gopher-fleece/gleece/v2/graphs/symboldg"
	"github.com/gopher-fleece/gleece/v2/infrastructure/logger"
)

type Diag struct {
	Entity   []string `json:"entity"` // chain of "Kind Name"
	Code     string   `json:"code"`
	Severity int      `json:"severity"`
	Message  string   `json:"message"`
	File     string   `json:"file"`
	Range    [4]int   `json:"range"` // startLine, startCol, endLine, endCol (0-based)
}

type ValidateOut struct {
	ConfigErr   string `json:"config_err,omitempty"`
	PipelineErr string `json:"pipeline_err,omitempty"`
	GraphErr    string `json:"graph_err,omitempty"`
	ValidateErr string `json:"validate_err,omitempty"`
	Diags       []Diag `json:"diags"`
	RunErr      string `json:"run_err,omitempty"` // error text of Run() (the CLI's error message)
	Panic       string `json:"panic,omitempty"`
}

func flatten(chain []string, e diagnostics.EntityDiagnostic, out *[]Diag) {
	chain = append(append([]string{}, chain...), e.EntityKind+" "+e.EntityName)
	for _, d := range e.Diagnostics {
		*out = append(*out, Diag{Entity: chain, Code: d.Code, Severity: int(d.Severity), Message: d.Message, File: d.FilePath,
			Range: [4]int{d.Range.StartLine, d.Range.StartCol, d.Range.EndLine, d.Range.EndCol}})
	}
	for _, c := range e.Children {
		if c != nil {
			flatten(chain, *c, out)
		}
	}
}

// Validate: GenerateGraph + Validate on a fresh pipeline, then Run() on another fresh pipeline for
// the error text.
func Validate(dir, config string) (out ValidateOut) {
	logger.SetLogLevel(logger.LogLevelNone)
	defer func() {
		if r := recover(); r != nil {
			out.Panic = fmt.Sprint(r)
		}
	}()
	if err := os.Chdir(dir); err != nil {
		out.ConfigErr = err.Error()
		return
	}
	cfg, err := cmd.LoadGleeceConfig(config)
	if err != nil {
		out.ConfigErr = err.Error()
		return
	}
	p, err := pipeline.NewGleecePipeline(cfg)
	if err != nil {
		out.PipelineErr = err.Error()
		return
	}
	if err := p.GenerateGraph(); err != nil {
		out.GraphErr = err.Error()
		return
	}
	diags, err := p.Validate()
	if err != nil {
		out.ValidateErr = err.Error()
	}
	out.Diags = []Diag{}
	for _, e := range diags {
		flatten(nil, e, &out.Diags)
	}
	p2, err := pipeline.NewGleecePipeline(cfg)
	if err == nil {
		if _, err := p2.Run(); err != nil {
			out.RunErr = err.Error()
		}
	}
	return
}

// ---- C19: repeated analysis on one pipeline ----

type Step struct {
	Op       string         `json:"op"` // G V I R (Run) F (fresh pipeline Run)
	Err      string         `json:"err,omitempty"`
	Meta     string         `json:"meta,omitempty"`  // canonical metadata digest source (JSON)
	Diags    string         `json:"diags,omitempty"` // canonical diagnostics
	Census   map[string]int `json:"census,omitempty"`
	Edges    int            `json:"edges"`
	SpecHash string         `json:"spec_hash,omitempty"`
}

type RerunOut struct {
	ConfigErr string `json:"config_err,omitempty"`
	Steps     []Step `json:"steps"`
	Panic     string `json:"panic,omitempty"`
}

var allKinds = []common.SymKind{common.SymKindStruct, common.SymKindController, common.SymKindAlias, common.SymKindComposite, common.SymKindTypeParam, common.SymKindEnum,
	common.SymKindReceiver, common.SymKindField, common.SymKindParameter, common.SymKindConstant, common.SymKindReturnType, common.SymKindBuiltin, common.SymKindSpecialBuiltin, common.SymKindUnknown,
	common.SymKindPackage, common.SymKindInterface, common.SymKindEnumValue, common.SymKindFunction, common.SymKindVariable}

func census(g symboldg.SymbolGraphBuilder) (map[string]int, int) {
	out := map[string]int{}
	edges := map[string]bool{}
	for _, k := range allKinds {
		nodes := g.FindByKind(k)
		if len(nodes) > 0 {
			out[string(k)] = len(nodes)
		}
		for _, n := range nodes {
			for key := range g.GetEdges(n.Id, nil) {
				edges[key] = true
			}
		}
	}
	return out, len(edges)
}

// canonMeta renders the flattened metadata in a canonical, order-insensitive form
// (ordering is C13's subject, not C19's).
func canonMeta(m pipeline.GleeceFlattenedMetadata) string {
	b, err := json.Marshal(m)
	if err != nil {
		return "unmarshalable: " + err.Error()
	}
	var v any
	_ = json.Unmarshal(b, &v)
	return canonJSON(v)
}

func canonJSON(v any) string {
	switch t := v.(type) {
	case map[string]any:
		keys := make([]string, 0, len(t))
		for k := range t {
			keys = append(keys, k)
		}
		sort.Strings(keys)
		var parts []string
		for _, k := range keys {
			parts = append(parts, fmt.Sprintf("%q:%s", k, canonJSON(t[k])))
		}
		return "{" + strings.Join(parts, ",") + "}"
	case []any:
		var parts []string
		for _, e := range t {
			parts = append(parts, canonJSON(e))
		}
		sort.Strings(parts) // order-insensitive
		return "[" + strings.Join(parts, ",") + "]"
	default:
		b, _ := json.Marshal(t)
		return string(b)
	}
}

func canonDiags(ds []diagnostics.EntityDiagnostic) string {
	var flat []Diag
	for _, e := range ds {
		flatten(nil, e, &flat)
	}
	var rows []string
	for _, d := range flat {
		rows = append(rows, fmt.Sprintf("%v|%s|%d|%s|%s|%v", d.Entity, d.Code, d.Severity, d.Message, d.File, d.Range))
	}
	sort.Strings(rows)
	return strings.Join(rows, "\n")
}

// Rerun executes a history such as "GVIGVI" or "RRF" on ONE pipeline (F = a brand-new pipeline's Run).
func Rerun(dir, config, history string) (out RerunOut) {
	logger.SetLogLevel(logger.LogLevelNone)
	defer func() {
		if r := recover(); r != nil {
			out.Panic = fmt.Sprint(r)
		}
	}()
	if err := os.Chdir(dir); err != nil {
		out.ConfigErr = err.Error()
		return
	}
	cfg, err := cmd.LoadGleeceConfig(config)
	if err != nil {
		out.ConfigErr = err.Error()
		return
	}
	p, err := pipeline.NewGleecePipeline(cfg)
	if err != nil {
		out.ConfigErr = err.Error()
		return
	}
	specOf := func(m pipeline.GleeceFlattenedMetadata) string {
		models := m.Models
		b, err := swagen.GenerateSpec(&cfg.OpenAPIGeneratorConfig, m.Flat, &models, m.PlainErrorPresent)
		if err != nil {
			// only the fact is compared between passes: which of several offending operations the
			// third-party document validator names first follows its own map iteration
			return "spec-error"
		}
		return fmt.Sprintf("%x", sha(b))
	}
	for _, op := range history {
		st := Step{Op: string(op)}
		switch op {
		case 'G':
			if err := p.GenerateGraph(); err != nil {
				st.Err = err.Error()
			}
		case 'V':
			ds, err := p.Validate()
			if err != nil {
				st.Err = err.Error()
			}
			st.Diags = canonDiags(ds)
		case 'I':
			m, err := p.GenerateIntermediate()
			if err != nil {
				st.Err = err.Error()
			} else {
				st.Meta = canonMeta(m)
				st.SpecHash = specOf(m)
			}
		case 'R':
			m, err := p.Run()
			if err != nil {
				st.Err = err.Error()
			} else {
				st.Meta = canonMeta(m)
				st.SpecHash = specOf(m)
			}
		case 'F':
			fp, err := pipeline.NewGleecePipeline(cfg)
			if err != nil {
				st.Err = err.Error()
				break
			}
			m, err := fp.Run()
			if err != nil {
				st.Err = err.Error()
			} else {
				st.Meta = canonMeta(m)
				st.SpecHash = specOf(m)
			}
			st.Census, st.Edges = census(fp.Graph())
			out.Steps = append(out.Steps, st)
			continue
		}
		st.Census, st.Edges = census(p.Graph())
		out.Steps = append(out.Steps, st)
	}
	return
}

func sha(b []byte) []byte {
	h := sha256.Sum256(b)
	return h[:8]
}
