// Package c15 monitors paths.FindConflicts against a brute-force overlap model (DESIGN.md C15, A.8).
package c15

import (
	"fmt"
	"sort"
	"strings"

	"github.com/gopher-fleece/gleece/v2/core/metadata"
	"github.com/gopher-fleece/gleece/v2/core/validators/paths"

	"verif/harness/report"
	"verif/harness/rng"
)

type Entry struct {
	Verb string `json:"verb"`
	Path string `json:"path"`
}

// ---- reference model (transcribed from the property statement) ----

func normSegments(p string) []string {
	var segs []string
	for _, s := range strings.Split(p, "/") {
		if s != "" {
			segs = append(segs, s)
		}
	}
	return segs
}

func isParam(s string) bool { return len(s) >= 2 && s[0] == '{' && s[len(s)-1] == '}' }

func overlap(a, b Entry) bool {
	if a.Verb != b.Verb {
		return false
	}
	sa, sb := normSegments(a.Path), normSegments(b.Path)
	if len(sa) != len(sb) {
		return false
	}
	for i := range sa {
		if sa[i] == sb[i] || isParam(sa[i]) || isParam(sb[i]) {
			continue
		}
		return false
	}
	return true
}

func expected(list []Entry) map[int]bool {
	out := map[int]bool{}
	for i := range list {
		for j := range list {
			if i != j && overlap(list[i], list[j]) {
				out[i] = true
			}
		}
	}
	return out
}

// ---- observation of the real code ----

type observed struct {
	flagged map[int]bool
	viol    []report.Violation
}

func observe(list []Entry) (obs observed) {
	recv := make([]*metadata.ReceiverMeta, len(list))
	idOf := map[*metadata.ReceiverMeta]int{}
	in := make([]paths.RouteEntry, len(list))
	for i, e := range list {
		recv[i] = &metadata.ReceiverMeta{}
		recv[i].Name = fmt.Sprintf("e%d", i)
		idOf[recv[i]] = i
		in[i] = paths.RouteEntry{Path: e.Path, Method: e.Verb, Meta: paths.RouteEntryMeta{Receiver: recv[i]}}
	}
	obs.flagged = map[int]bool{}
	defer func() {
		if r := recover(); r != nil {
			obs.viol = append(obs.viol, report.Violation{Kind: "panic", Detail: fmt.Sprint(r), Case: list})
		}
	}()
	conflicts := paths.FindConflicts(in)
	for _, c := range conflicts {
		ia, okA := idOf[c.A.Meta.Receiver]
		ib, okB := idOf[c.B.Meta.Receiver]
		if !okA || !okB {
			obs.viol = append(obs.viol, report.Violation{Kind: "conflict-names-unknown-entry", Detail: fmt.Sprintf("conflict %q names an entry that is not in the list", c.Reason), Case: list})
			continue
		}
		obs.flagged[ia] = true
		obs.flagged[ib] = true
		switch {
		case ia == ib:
			obs.viol = append(obs.viol, report.Violation{Kind: "conflict-self", Detail: fmt.Sprintf("conflict %q names entry %d (%s %s) twice", c.Reason, ia, list[ia].Verb, list[ia].Path), Case: list})
		case list[ia].Verb != list[ib].Verb:
			obs.viol = append(obs.viol, report.Violation{Kind: "conflict-verb-mismatch", Detail: fmt.Sprintf("conflict between %d (%s %s) and %d (%s %s)", ia, list[ia].Verb, list[ia].Path, ib, list[ib].Verb, list[ib].Path), Case: list})
		case !overlap(list[ia], list[ib]):
			obs.viol = append(obs.viol, report.Violation{Kind: "conflict-no-overlap", Detail: fmt.Sprintf("conflict between %d (%s %s) and %d (%s %s) which cannot match a common path: %s", ia, list[ia].Verb, list[ia].Path, ib, list[ib].Verb, list[ib].Path, c.Reason), Case: list})
		}
	}
	return obs
}

func keys(m map[int]bool) []int {
	var ks []int
	for k := range m {
		ks = append(ks, k)
	}
	sort.Ints(ks)
	return ks
}

// check evaluates one list; returns true when the list is non-trivial (some overlap expected).
func check(res *report.Result, list []Entry) bool {
	res.Evaluations++
	exp := expected(list)
	obs := observe(list)
	res.Violations = append(res.Violations, obs.viol...)
	for i := range exp {
		if !obs.flagged[i] {
			// how many entries share this entry's verb and normal form: discriminates the
			// "identical duplicates" situation from every other way of missing an entry
			same := 0
			for j := range list {
				if list[j].Verb == list[i].Verb && strings.Join(normSegments(list[j].Path), "/") == strings.Join(normSegments(list[i].Path), "/") {
					same++
				}
			}
			res.AddViolation("missed-entry",
				map[string]string{"identical_entries": fmt.Sprint(same)},
				fmt.Sprintf("entry %d (%s %q) overlaps another same-verb entry but is named in no conflict; flagged=%v expected=%v", i, list[i].Verb, list[i].Path, keys(obs.flagged), keys(exp)),
				list)
			break // one witness per list
		}
	}
	return len(exp) > 0
}

var exSegs = []string{"a", "b", "{x}", "{y}"}

func exhaustiveUniverse() []Entry {
	var ps []string
	ps = append(ps, "/")
	for _, s := range exSegs {
		ps = append(ps, "/"+s)
		for _, t := range exSegs {
			ps = append(ps, "/"+s+"/"+t)
		}
	}
	var es []Entry
	for _, v := range []string{"GET", "POST"} {
		for _, p := range ps {
			es = append(es, Entry{v, p})
		}
	}
	return es
}

func enumerate(res *report.Result, uni []Entry, maxLen int, nontrivial *int) {
	var rec func(prefix []Entry)
	rec = func(prefix []Entry) {
		if len(prefix) > 0 {
			l := append([]Entry(nil), prefix...)
			if check(res, l) {
				*nontrivial++
			}
			if len(res.Violations) > 2000 {
				return
			}
		}
		if len(prefix) == maxLen {
			return
		}
		for _, e := range uni {
			rec(append(prefix, e))
			if len(res.Violations) > 2000 {
				return
			}
		}
	}
	rec(nil)
}

var verbs = []string{"GET", "POST", "PUT", "DELETE", "PATCH"}

func randomPath(r interface{ Intn(int) int }, segAlphabet []string) string {
	depth := r.Intn(6)
	if depth == 0 {
		return []string{"", "/", "//"}[r.Intn(3)]
	}
	var sb strings.Builder
	if r.Intn(5) != 0 {
		sb.WriteString("/")
	}
	for i := 0; i < depth; i++ {
		if i > 0 {
			sb.WriteString([]string{"/", "/", "/", "//"}[r.Intn(4)])
		}
		sb.WriteString(segAlphabet[r.Intn(len(segAlphabet))])
	}
	if r.Intn(6) == 0 {
		sb.WriteString("/")
	}
	return sb.String()
}

// Run executes the monitor. quick: exhaustive lists of <=3 entries + 3000 random lists;
// thorough: exhaustive <=4 + 200000 random lists.
func Run(seed int64, tier string) *report.Result {
	res := &report.Result{Property: "C15"}
	maxLen, nRandom := 3, 3000
	if tier == "thorough" {
		maxLen, nRandom = 4, 200000
	}
	uni := exhaustiveUniverse()
	nontrivial := 0
	enumerate(res, uni, maxLen, &nontrivial)
	exhaustiveEvals := res.Evaluations

	r := rng.New(seed, "C15", "random")
	dist := report.NewDistincter()
	permChecks, permDistinctOrders := 0, 0
	alphabets := [][]string{
		{"a", "b", "{x}", "{y}"},
		{"a", "b", "c", "{id}", "{name}", "users", "{x}y", "x{y}"},
		{"v1", "{v}", "items", "{item}", "a-b", "{a-b}", "ü", "{ü}"},
	}
	for n := 0; n < nRandom && len(res.Violations) <= 2000; n++ {
		alpha := alphabets[r.Intn(len(alphabets))]
		size := 5 + r.Intn(36)
		nv := 1 + r.Intn(len(verbs))
		list := make([]Entry, size)
		for i := range list {
			if i > 0 && r.Intn(4) == 0 { // duplicate-heavy
				list[i] = list[r.Intn(i)]
				if r.Intn(3) == 0 {
					list[i].Verb = verbs[r.Intn(nv)]
				}
				continue
			}
			list[i] = Entry{verbs[r.Intn(nv)], randomPath(r, alpha)}
		}
		if check(res, list) {
			dist.Add(list)
		}
		if len(res.Samples) < 3 && n%7 == 0 {
			res.Samples = append(res.Samples, map[string]any{"random_list": list, "expected_flagged": keys(expected(list))})
		}
		// order independence: the flagged *set of entries* must not change under permutation
		base := observe(list).flagged
		nPerm := 20
		if tier != "thorough" {
			nPerm = 6
		}
		for k := 0; k < nPerm; k++ {
			perm := r.Perm(len(list))
			pl := make([]Entry, len(list))
			for to, from := range perm {
				pl[to] = list[from]
			}
			po := observe(pl)
			permChecks++
			back := map[int]bool{}
			for to := range po.flagged {
				back[perm[to]] = true
			}
			if fmt.Sprint(keys(back)) != fmt.Sprint(keys(base)) {
				// attribute to the duplicates cause only if the model-level flagged set is complete in neither
				res.AddViolation("order-dependent-flagged-set", nil,
					fmt.Sprintf("flagged set %v in the given order but %v (mapped back) after permutation %v", keys(base), keys(back), perm), list)
				break
			}
			permDistinctOrders++
		}
	}
	res.Distinct = nontrivial + dist.N()
	res.Exhaustive = false
	res.Rule = fmt.Sprintf("exhaustive: every ordered list of 1..%d entries over 2 verbs x 21 templates (segments a,b,{x},{y}, depth<=2), so every permutation is included; random: %d duplicate-heavy lists of 5..40 entries, depth<=5, <=5 verbs, raw (un-normalised) path spellings, each re-run under permutations. A case is non-trivial when the brute-force model expects at least one overlapping pair; distinct = enumerated lists are distinct by construction, random lists by content hash.", maxLen, nRandom)
	res.Extra("exhaustive_part", map[string]any{"lists": exhaustiveEvals, "max_len": maxLen, "universe_entries": len(uni), "complete": len(res.Violations) <= 2000})
	res.Extra("random_part", map[string]any{"lists": res.Evaluations - exhaustiveEvals, "permutation_runs": permChecks})
	res.Samples = append(res.Samples, map[string]any{"exhaustive_list_example": []Entry{{"GET", "/a/{x}"}, {"GET", "/{y}/b"}, {"POST", "/a/b"}}, "expected_flagged": []int{0, 1}})
	res.Assumptions = []string{"entry identity = the unique Meta.Receiver pointer attached to each RouteEntry", "a segment is a parameter iff it has the form {…}; templates are normalised as the statement says (leading slash, collapsed slashes, no trailing slash)"}
	return res
}

// Replay evaluates one list verbosely.
func Replay(list []Entry) *report.Result {
	res := &report.Result{Property: "C15"}
	check(res, list)
	fmt.Printf("list=%v expected=%v observed=%v\n", list, keys(expected(list)), keys(observe(list).flagged))
	res.Distinct = 2
	return res
}
