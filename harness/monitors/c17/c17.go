// Package c17 monitors symboldg.SymbolGraph against a plain set-of-nodes / set-of-edges model
// (DESIGN.md C17, A.10). After every operation every public query is evaluated on both.
package c17

import (
	"fmt"
	"go/ast"
	"go/token"
	"math/rand"
	"runtime"
	"sort"
	"strings"
	"sync"
	"time"

	"github.com/gopher-fleece/gleece/v2/common"
	"github.com/gopher-fleece/gleece/v2/core/metadata"
	"github.com/gopher-fleece/gleece/v2/core/metadata/typeref"
	"github.com/gopher-fleece/gleece/v2/gast"
	"github.com/gopher-fleece/gleece/v2/graphs"
	"github.com/gopher-fleece/gleece/v2/graphs/symboldg"

	"verif/harness/report"
	"verif/harness/rng"
)

// ---------- operations ----------

type Op struct {
	Kind     string `json:"op"` // alias struct field enum prim special edge unedge rmnode touch
	K        int    `json:"k,omitempty"`
	Fields   []int  `json:"fields,omitempty"`
	TypeRef  int    `json:"type,omitempty"`  // field: key index, or 6=string 7=int
	EnumKind string `json:"ekind,omitempty"` // enum: string|int
	Values   []int  `json:"values,omitempty"`
	From     int    `json:"from,omitempty"`
	To       int    `json:"to,omitempty"`
	EdgeKind string `json:"ekd,omitempty"` // "" = nil (all kinds) for unedge
	Name     string `json:"name,omitempty"`
	File     int    `json:"file,omitempty"`
}

func (o Op) String() string {
	switch o.Kind {
	case "alias":
		return fmt.Sprintf("AddAlias(N%d)", o.K)
	case "struct":
		return fmt.Sprintf("AddStruct(N%d,fields=%v)", o.K, o.Fields)
	case "field":
		return fmt.Sprintf("AddField(N%d,type=%s)", o.K, keyName(o.TypeRef))
	case "enum":
		return fmt.Sprintf("AddEnum(N%d,%s,values=%v)", o.K, o.EnumKind, o.Values)
	case "prim":
		return fmt.Sprintf("AddPrimitive(%s)", o.Name)
	case "special":
		return fmt.Sprintf("AddSpecial(%s)", o.Name)
	case "edge":
		return fmt.Sprintf("AddEdge(%s,%s,%s)", keyName(o.From), keyName(o.To), o.EdgeKind)
	case "unedge":
		k := o.EdgeKind
		if k == "" {
			k = "nil"
		}
		return fmt.Sprintf("RemoveEdge(%s,%s,%s)", keyName(o.From), keyName(o.To), k)
	case "rmnode":
		return fmt.Sprintf("RemoveNode(%s)", keyName(o.K))
	case "touch":
		return fmt.Sprintf("NewFileVersion(F%d)", o.File)
	}
	return o.Kind
}

const (
	nDecl     = 6
	keyString = 6
	keyInt    = 7
	nKeys     = 8
)

func keyName(i int) string {
	switch i {
	case keyString:
		return "string"
	case keyInt:
		return "int"
	}
	return fmt.Sprintf("N%d", i)
}

func fileOf(k int) int { return k / 3 }

// ---------- the model ----------

type mEdge struct {
	from, to string // base ids
	kind     string
}

type mNode struct {
	kind    string
	version int // -1 for builtins
}

type model struct {
	nodes map[string]mNode
	edges map[mEdge]struct{}
	// endpoint versions used by an edge (only to detect the stale-reference ambiguity zone)
	edgeVers  map[mEdge][2]int
	fileVer   [2]int
	ambiguous string
}

func newModel() *model {
	return &model{nodes: map[string]mNode{}, edges: map[mEdge]struct{}{}, edgeVers: map[mEdge][2]int{}}
}

func (m *model) hasLiveDependency(id string) (live, any bool) {
	for e := range m.edges {
		if e.from == id {
			any = true
			if _, ok := m.nodes[e.to]; ok {
				live = true
			}
		}
	}
	return
}

func (m *model) removeNode(id string) {
	if _, ok := m.nodes[id]; !ok {
		return
	}
	work := []string{id}
	for len(work) > 0 {
		n := work[0]
		work = work[1:]
		if _, ok := m.nodes[n]; !ok {
			continue
		}
		delete(m.nodes, n)
		var lost []string
		for e := range m.edges {
			if e.to == n && e.from != n {
				lost = append(lost, e.from)
			}
			if e.to == n || e.from == n {
				delete(m.edges, e)
				delete(m.edgeVers, e)
			}
		}
		sort.Strings(lost)
		for _, d := range lost {
			if _, ok := m.nodes[d]; !ok {
				continue
			}
			live, any := m.hasLiveDependency(d)
			if !live {
				if any {
					m.ambiguous = "dependant left with dangling edges only (DESIGN §3 rule 4c)"
				}
				work = append(work, d)
			}
		}
	}
}

func (m *model) insertNode(id, kind string, version int) {
	if ex, ok := m.nodes[id]; ok {
		if ex.version == version {
			return
		}
		m.removeNode(id)
	}
	// stale dangling references to this key under another version: not judged
	for e, vs := range m.edgeVers {
		if (e.from == id && vs[0] != version && vs[0] >= 0) || (e.to == id && vs[1] != version && vs[1] >= 0) {
			m.ambiguous = "node added while a dangling edge references another file version of it"
		}
	}
	m.nodes[id] = mNode{kind: kind, version: version}
}

// pairVersionsDiffer: an existing edge between the same pair was recorded under other endpoint
// versions than this reference uses (a stale reference): not judged.
func (m *model) pairVersionsDiffer(from, to string, fv, tv int) {
	for e, vs := range m.edgeVers {
		if e.from == from && e.to == to && (vs[0] != fv || vs[1] != tv) {
			m.ambiguous = "edge referenced under another file version than the one it was added with"
		}
	}
}

func (m *model) addEdge(from, to, kind string, fv, tv int) {
	m.pairVersionsDiffer(from, to, fv, tv)
	e := mEdge{from, to, kind}
	if _, ok := m.edges[e]; ok {
		return
	}
	m.edges[e] = struct{}{}
	m.edgeVers[e] = [2]int{fv, tv}
}

func (m *model) removeEdge(from, to, kind string) {
	for e := range m.edges {
		if e.from == from && e.to == to && (kind == "" || e.kind == kind) {
			delete(m.edges, e)
			delete(m.edgeVers, e)
		}
	}
}

// ---------- the system under observation ----------

type sut struct {
	g      symboldg.SymbolGraph
	idents [nDecl]*ast.Ident
	vers   [2][]*gast.FileVersion
}

var epoch = time.Unix(1_700_000_000, 0)

func newSut() *sut {
	s := &sut{g: symboldg.NewSymbolGraph()}
	for i := 0; i < nDecl; i++ {
		s.idents[i] = &ast.Ident{Name: fmt.Sprintf("N%d", i), NamePos: token.Pos(10 * (i + 1))}
	}
	return s
}

func (s *sut) version(file, v int) *gast.FileVersion {
	for len(s.vers[file]) <= v {
		n := len(s.vers[file])
		s.vers[file] = append(s.vers[file], &gast.FileVersion{
			Path: fmt.Sprintf("/virtual/f%d.go", file),
			// odd versions keep the modification time of their predecessor: only the content hash tells them apart
			ModTime: epoch.Add(time.Duration(n-n%2) * time.Hour),
			Hash:    fmt.Sprintf("hash-f%d-v%d", file, n),
		})
	}
	return s.vers[file][v]
}

func (s *sut) key(k, v int) graphs.SymbolKey {
	switch k {
	case keyString:
		return graphs.NewUniverseSymbolKey("string")
	case keyInt:
		return graphs.NewUniverseSymbolKey("int")
	}
	return graphs.NewSymbolKey(s.idents[k], s.version(fileOf(k), v))
}

func baseId(k int) string {
	switch k {
	case keyString:
		return "UniverseType:string"
	case keyInt:
		return "UniverseType:int"
	}
	return fmt.Sprintf("N%d@%d@/virtual/f%d.go", k, 10*(k+1), fileOf(k))
}

func (s *sut) meta(k, v int, kind common.SymKind) metadata.SymNodeMeta {
	return metadata.SymNodeMeta{Name: fmt.Sprintf("N%d", k), Node: s.idents[k], SymbolKind: kind, PkgPath: "example/pkg", FVersion: s.version(fileOf(k), v)}
}

// ---------- running one history ----------

type runner struct {
	s   *sut
	m   *model
	res *report.Result
	// set by apply() when re-inserting an existing edge changed an ordered answer; reported by compare()
	reinsertDiff string
}

// verOf: the version a reference to key k carries: the node's current version when it exists,
// the file's current version otherwise.
func (r *runner) verOf(k int) int {
	if k >= nDecl {
		return -1
	}
	if n, ok := r.m.nodes[baseId(k)]; ok {
		return n.version
	}
	return r.m.fileVer[fileOf(k)]
}

func (r *runner) apply(o Op) (err error) {
	defer func() {
		if rec := recover(); rec != nil {
			err = fmt.Errorf("PANIC: %v", rec)
		}
	}()
	s, m := r.s, r.m
	switch o.Kind {
	case "touch":
		m.fileVer[o.File]++
	case "alias":
		v := m.fileVer[fileOf(o.K)]
		_, err = s.g.AddAlias(symboldg.CreateAliasNode{Data: metadata.AliasMeta{SymNodeMeta: s.meta(o.K, v, common.SymKindAlias)}})
		m.insertNode(baseId(o.K), "Alias", v)
	case "struct":
		v := m.fileVer[fileOf(o.K)]
		sm := metadata.StructMeta{SymNodeMeta: s.meta(o.K, v, common.SymKindStruct)}
		type fe struct{ k, v int }
		var fes []fe
		for _, f := range o.Fields {
			fv := r.verOf(f)
			if f == o.K {
				fv = v
			}
			sm.Fields = append(sm.Fields, metadata.FieldMeta{SymNodeMeta: s.meta(f, fv, common.SymKindField)})
			fes = append(fes, fe{f, fv})
		}
		_, err = s.g.AddStruct(symboldg.CreateStructNode{Data: sm})
		m.insertNode(baseId(o.K), "Struct", v)
		for _, f := range fes {
			m.addEdge(baseId(o.K), baseId(f.k), "fld", v, f.v)
		}
	case "field":
		v := m.fileVer[fileOf(o.K)]
		fm := metadata.FieldMeta{SymNodeMeta: s.meta(o.K, v, common.SymKindField)}
		tv := r.verOf(o.TypeRef)
		if o.TypeRef == o.K {
			tv = v
		}
		tk := s.key(o.TypeRef, tv)
		ref := typeref.NewNamedTypeRef(&tk, nil)
		fm.Type = metadata.TypeUsageMeta{SymNodeMeta: metadata.SymNodeMeta{Name: keyName(o.TypeRef), FVersion: s.version(fileOf(o.K), v)}, Root: &ref}
		_, err = s.g.AddField(symboldg.CreateFieldNode{Data: fm})
		m.insertNode(baseId(o.K), "Field", v)
		if o.TypeRef >= nDecl {
			m.insertNode(baseId(o.TypeRef), "Builtin", -1)
		}
		m.addEdge(baseId(o.K), baseId(o.TypeRef), "ty", v, tv)
	case "enum":
		v := m.fileVer[fileOf(o.K)]
		em := metadata.EnumMeta{SymNodeMeta: s.meta(o.K, v, common.SymKindEnum), ValueKind: metadata.EnumValueKind(o.EnumKind)}
		prim := keyString
		if o.EnumKind == "int" {
			prim = keyInt
		}
		type ve struct{ k, v int }
		var ves []ve
		for _, u := range o.Values {
			uv := m.fileVer[fileOf(u)]
			em.Values = append(em.Values, metadata.EnumValueDefinition{SymNodeMeta: s.meta(u, uv, common.SymKindConstant), Value: fmt.Sprintf("v%d", u)})
			ves = append(ves, ve{u, uv})
		}
		_, err = s.g.AddEnum(symboldg.CreateEnumNode{Data: em})
		m.insertNode(baseId(o.K), "Enum", v)
		m.insertNode(baseId(prim), "Builtin", -1)
		for _, u := range ves {
			m.insertNode(baseId(u.k), "Constant", u.v)
			// the enum may have been cascaded away by replacing a value it depended on; the
			// adders still insert the edges
			m.addEdge(baseId(o.K), baseId(u.k), "val", v, u.v)
			m.addEdge(baseId(u.k), baseId(prim), "ref", u.v, -1)
		}
	case "prim":
		s.g.AddPrimitive(common.PrimitiveType(o.Name))
		m.insertNode("UniverseType:"+o.Name, "Builtin", -1)
	case "special":
		sp := common.SpecialType(o.Name)
		s.g.AddSpecial(sp)
		if sp.IsUniverse() {
			m.insertNode("UniverseType:"+o.Name, "Special", -1)
		} else {
			m.insertNode(o.Name+"@0@", "Special", -1)
		}
	case "edge":
		fv, tv := r.verOf(o.From), r.verOf(o.To)
		// "re-inserting an existing edge changes nothing": when the very same edge (same endpoints under the same
		// versions, same kind) is already there, every ordered answer must read the same before and after
		before := ""
		me := mEdge{baseId(o.From), baseId(o.To), o.EdgeKind}
		if ev, ok := m.edgeVers[me]; ok && ev == [2]int{fv, tv} {
			before = r.orderedFingerprint()
		}
		s.g.AddEdge(s.key(o.From, fv), s.key(o.To, tv), symboldg.SymbolEdgeKind(o.EdgeKind), nil)
		m.addEdge(baseId(o.From), baseId(o.To), o.EdgeKind, fv, tv)
		if before != "" {
			if after := r.orderedFingerprint(); after != before {
				r.reinsertDiff = fmt.Sprintf("ordered answers before re-inserting %s: %s | after: %s", edgeStr(me.from, me.to, me.kind), before, after)
			}
		}
	case "unedge":
		fv, tv := r.verOf(o.From), r.verOf(o.To)
		// use the versions the stored edge carries, if any (a reference always names the live node)
		var kind *symboldg.SymbolEdgeKind
		if o.EdgeKind != "" {
			k := symboldg.SymbolEdgeKind(o.EdgeKind)
			kind = &k
		}
		m.pairVersionsDiffer(baseId(o.From), baseId(o.To), fv, tv)
		s.g.RemoveEdge(s.key(o.From, fv), s.key(o.To, tv), kind)
		m.removeEdge(baseId(o.From), baseId(o.To), o.EdgeKind)
	case "rmnode":
		s.g.RemoveNode(s.key(o.K, r.verOf(o.K)))
		m.removeNode(baseId(o.K))
	default:
		return fmt.Errorf("unknown op %q", o.Kind)
	}
	return err
}

func edgeStr(from, to, kind string) string { return from + " -" + kind + "-> " + to }

func sortedKeys(m map[string]bool) []string {
	ks := make([]string, 0, len(m))
	for k := range m {
		ks = append(ks, k)
	}
	sort.Strings(ks)
	return ks
}

func setEq(a, b map[string]bool) bool {
	if len(a) != len(b) {
		return false
	}
	for k := range a {
		if !b[k] {
			return false
		}
	}
	return true
}

func nodeSet(ns []*symboldg.SymbolNode) map[string]bool {
	out := map[string]bool{}
	for _, n := range ns {
		out[n.Id.BaseId()] = true
	}
	return out
}

var allKinds = []common.SymKind{common.SymKindStruct, common.SymKindAlias, common.SymKindEnum, common.SymKindField, common.SymKindConstant, common.SymKindBuiltin, common.SymKindSpecialBuiltin, common.SymKindController, common.SymKindReceiver}

// compare evaluates every public query on both sides; returns a description of the first mismatch.
// orderedFingerprint lists, for every live key, the outgoing edges with their ordinals and the
// ordinal-sorted children and parents exactly in the order the graph returns them.
func (r *runner) orderedFingerprint() string {
	var sb strings.Builder
	sorted := &symboldg.TraversalBehavior{Sorting: symboldg.TraversalSortingOrdinalAsc}
	for k := 0; k < nKeys; k++ {
		key := r.s.key(k, r.verOf(k))
		n := r.s.g.Get(key)
		if n == nil {
			continue
		}
		sb.WriteString(keyName(k) + "{")
		var es []string
		for _, d := range r.s.g.GetEdges(key, nil) {
			es = append(es, fmt.Sprintf("%s#%d", edgeStr(d.Edge.From.BaseId(), d.Edge.To.BaseId(), string(d.Edge.Kind)), d.Ordinal))
		}
		sortStrings2(es)
		sb.WriteString(strings.Join(es, ",") + " ch:")
		for _, c := range r.s.g.Children(n, sorted) {
			sb.WriteString(c.Id.BaseId() + ">")
		}
		sb.WriteString(" pa:")
		for _, c := range r.s.g.Parents(n, sorted) {
			sb.WriteString(c.Id.BaseId() + ">")
		}
		sb.WriteString("} ")
	}
	return sb.String()
}

func sortStrings2(s []string) {
	for i := 1; i < len(s); i++ {
		for j := i; j > 0 && s[j] < s[j-1]; j-- {
			s[j], s[j-1] = s[j-1], s[j]
		}
	}
}

func (r *runner) compare() (kind string, detail string) {
	s, m := r.s, r.m
	if r.reinsertDiff != "" {
		d := r.reinsertDiff
		r.reinsertDiff = ""
		return "reinsertion-changed-an-answer", d
	}
	outE, inE := map[string][]mEdge{}, map[string][]mEdge{}
	for e := range m.edges {
		outE[e.from] = append(outE[e.from], e)
		inE[e.to] = append(inE[e.to], e)
	}
	for k := 0; k < nKeys; k++ {
		id := baseId(k)
		key := s.key(k, r.verOf(k))
		mn, mExists := m.nodes[id]
		if got := s.g.Exists(key); got != mExists {
			return "exists-mismatch", fmt.Sprintf("Exists(%s)=%v, model %v", keyName(k), got, mExists)
		}
		n := s.g.Get(key)
		if (n != nil) != mExists {
			return "get-mismatch", fmt.Sprintf("Get(%s) nil=%v, model exists=%v", keyName(k), n == nil, mExists)
		}
		if n != nil {
			if string(n.Kind) != mn.kind {
				return "kind-mismatch", fmt.Sprintf("Get(%s).Kind=%s, model %s", keyName(k), n.Kind, mn.kind)
			}
			if mn.version >= 0 && (n.Version == nil || !n.Version.Equals(s.version(fileOf(k), mn.version))) {
				return "stale-version", fmt.Sprintf("Get(%s) carries version %v, model expects v%d", keyName(k), n.Version, mn.version)
			}
		}
		// edges
		wantOut, wantIn := map[string]bool{}, map[string]bool{}
		for _, e := range outE[id] {
			wantOut[edgeStr(e.from, e.to, e.kind)] = true
		}
		for _, e := range inE[id] {
			wantIn[edgeStr(e.from, e.to, e.kind)] = true
		}
		gotOut, gotIn := map[string]bool{}, map[string]bool{}
		for _, d := range s.g.GetEdges(key, nil) {
			es := edgeStr(d.Edge.From.BaseId(), d.Edge.To.BaseId(), string(d.Edge.Kind))
			if d.Edge.From.BaseId() == id {
				gotOut[es] = true
			}
			if d.Edge.To.BaseId() == id {
				gotIn[es] = true
			}
		}
		if !setEq(gotOut, wantOut) {
			return "outgoing-edges-mismatch", fmt.Sprintf("GetEdges(%s) outgoing=%v, model %v", keyName(k), sortedKeys(gotOut), sortedKeys(wantOut))
		}
		if !setEq(gotIn, wantIn) {
			return "incoming-edges-mismatch", fmt.Sprintf("GetEdges(%s) incoming=%v, model %v (the same edges ARE listed as outgoing at their sources)", keyName(k), sortedKeys(gotIn), sortedKeys(wantIn))
		}
		// kind-filtered variant
		for _, ek := range []string{"ref", "ty"} {
			w := map[string]bool{}
			for _, e := range outE[id] {
				if e.kind == ek {
					w[edgeStr(e.from, e.to, e.kind)] = true
				}
			}
			for _, e := range inE[id] {
				if e.kind == ek {
					w[edgeStr(e.from, e.to, e.kind)] = true
				}
			}
			g := map[string]bool{}
			for _, d := range s.g.GetEdges(key, []symboldg.SymbolEdgeKind{symboldg.SymbolEdgeKind(ek)}) {
				g[edgeStr(d.Edge.From.BaseId(), d.Edge.To.BaseId(), string(d.Edge.Kind))] = true
			}
			if !setEq(g, w) {
				return "filtered-edges-mismatch", fmt.Sprintf("GetEdges(%s,[%s])=%v, model %v", keyName(k), ek, sortedKeys(g), sortedKeys(w))
			}
		}
		if n == nil {
			continue
		}
		wantCh, wantPa := map[string]bool{}, map[string]bool{}
		for _, e := range outE[id] {
			if _, ok := m.nodes[e.to]; ok {
				wantCh[e.to] = true
			}
		}
		for _, e := range inE[id] {
			if _, ok := m.nodes[e.from]; ok {
				wantPa[e.from] = true
			}
		}
		if got := nodeSet(s.g.Children(n, nil)); !setEq(got, wantCh) {
			return "children-mismatch", fmt.Sprintf("Children(%s)=%v, model %v", keyName(k), sortedKeys(got), sortedKeys(wantCh))
		}
		if got := nodeSet(s.g.Parents(n, nil)); !setEq(got, wantPa) {
			return "parents-mismatch", fmt.Sprintf("Parents(%s)=%v, model %v", keyName(k), sortedKeys(got), sortedKeys(wantPa))
		}
		sorted := &symboldg.TraversalBehavior{Sorting: symboldg.TraversalSortingOrdinalAsc}
		if got := nodeSet(s.g.Children(n, sorted)); !setEq(got, wantCh) {
			return "children-mismatch", fmt.Sprintf("Children(%s,sorted)=%v, model %v", keyName(k), sortedKeys(got), sortedKeys(wantCh))
		}
		if got := nodeSet(s.g.Parents(n, sorted)); !setEq(got, wantPa) {
			return "parents-mismatch", fmt.Sprintf("Parents(%s,sorted)=%v, model %v", keyName(k), sortedKeys(got), sortedKeys(wantPa))
		}
		// descendants: transitive closure of children
		wantDe := map[string]bool{}
		stack := []string{id}
		for len(stack) > 0 {
			c := stack[len(stack)-1]
			stack = stack[:len(stack)-1]
			for _, e := range outE[c] {
				if _, ok := m.nodes[e.to]; ok && !wantDe[e.to] {
					wantDe[e.to] = true
					stack = append(stack, e.to)
				}
			}
		}
		if got := nodeSet(s.g.Descendants(n, nil)); !setEq(got, wantDe) {
			return "descendants-mismatch", fmt.Sprintf("Descendants(%s)=%v, model %v", keyName(k), sortedKeys(got), sortedKeys(wantDe))
		}
	}
	// FindByKind
	for _, kd := range allKinds {
		want := map[string]bool{}
		for id, n := range m.nodes {
			if n.kind == string(kd) {
				want[id] = true
			}
		}
		if got := nodeSet(s.g.FindByKind(kd)); !setEq(got, want) {
			return "findbykind-mismatch", fmt.Sprintf("FindByKind(%s)=%v, model %v", kd, sortedKeys(got), sortedKeys(want))
		}
	}
	all := map[string]bool{}
	for id := range m.nodes {
		all[id] = true
	}
	if got := nodeSet(s.g.FindByKind(allKinds...)); !setEq(got, all) {
		return "findbykind-mismatch", fmt.Sprintf("FindByKind(all)=%v, model %v", sortedKeys(got), sortedKeys(all))
	}
	return "", ""
}

// runHistory executes ops; when everyStep is false only the final state is compared (used by the
// exhaustive enumeration, where every prefix is itself an enumerated history).
// Returns: index of the first diverging op (-1 none), kind, detail, ambiguity reason.
func runHistory(ops []Op, everyStep bool) (at int, kind, detail, ambiguous string) {
	r := &runner{s: newSut(), m: newModel()}
	for i, o := range ops {
		if err := r.apply(o); err != nil {
			if strings.HasPrefix(err.Error(), "PANIC") {
				return i, "panic", err.Error(), ""
			}
			return i, "unexpected-error", fmt.Sprintf("%s returned %v", o, err), r.m.ambiguous
		}
		if r.m.ambiguous != "" {
			return -1, "", "", r.m.ambiguous
		}
		if everyStep || i == len(ops)-1 {
			if k, d := r.compare(); k != "" {
				return i, k, d, ""
			}
		}
	}
	return -1, "", "", ""
}

// shrink: delta-debugging by single-op removal while the same violation kind persists.
func shrink(ops []Op, kind string) []Op {
	cur := append([]Op(nil), ops...)
	for changed := true; changed; {
		changed = false
		for i := 0; i < len(cur); i++ {
			cand := append(append([]Op(nil), cur[:i]...), cur[i+1:]...)
			if len(cand) == 0 {
				continue
			}
			if _, k, _, amb := runHistory(cand, true); k == kind && amb == "" {
				cur = cand
				changed = true
				i--
			}
		}
	}
	return cur
}

func opStrings(ops []Op) []string {
	out := make([]string, len(ops))
	for i, o := range ops {
		out[i] = o.String()
	}
	return out
}

// whereOf attests causes present in the (shrunk) history, for known-finding signatures.
func whereOf(ops []Op) map[string]string {
	w := map[string]string{"kind_specific_remove_edge": "false"}
	for _, o := range ops {
		if o.Kind == "unedge" && o.EdgeKind != "" {
			w["kind_specific_remove_edge"] = "true"
		}
	}
	return w
}

type outcome struct {
	ops               []Op
	at                int
	kind, detail, amb string
	random            bool
}

func (rs *runState) record(o outcome) {
	rs.res.Evaluations++
	if o.random && rs.onRandom != nil {
		rs.onRandom(o.ops)
	}
	if o.amb != "" {
		rs.res.Inc("ambiguity-zone: " + o.amb)
		return
	}
	if o.kind == "" {
		return
	}
	ops, kind, detail := o.ops, o.kind, o.detail
	if rs.perKind[kind] >= 25 {
		rs.suppressed++
		rs.res.Violations = append(rs.res.Violations, report.Violation{Kind: kind, Where: whereOf(ops[:o.at+1]), Detail: "(further instance) " + detail})
		return
	}
	rs.perKind[kind]++
	min := shrink(ops[:o.at+1], kind)
	_, _, d2, _ := runHistory(min, true)
	if d2 != "" {
		detail = d2
	}
	rs.res.AddViolation(kind, whereOf(min), fmt.Sprintf("after %v: %s", opStrings(min), detail), min)
}

func (rs *runState) judge(ops []Op, everyStep bool) {
	at, kind, detail, amb := runHistory(ops, everyStep)
	rs.record(outcome{ops, at, kind, detail, amb, false})
}

type task struct {
	ops       []Op
	everyStep bool
	gen       bool
	seed      int64
	n         int
}

// genHistory derives the n-th random history from the seed alone (so workers can generate).
func genHistory(seed int64, n int) []Op {
	r := rng.New(seed, "C17", "random", fmt.Sprint(n))
	ln := 1 + r.Intn(60)
	ops := make([]Op, 0, ln)
	// a field whose type is a declared key may only reference an existing node (AddField reports
	// an error otherwise, and the statement does not define that outcome); existence is tracked
	// with a scratch run
	scratch := &runner{s: newSut(), m: newModel()}
	for i := 0; i < ln; i++ {
		o := randomOp(r)
		if o.Kind == "field" && o.TypeRef == -1 {
			var live []int
			for k := 0; k < nDecl; k++ {
				if _, ok := scratch.m.nodes[baseId(k)]; ok && k != o.K {
					live = append(live, k)
				}
			}
			if len(live) == 0 {
				o.TypeRef = keyString
			} else {
				o.TypeRef = live[r.Intn(len(live))]
			}
		}
		if o.Kind == "field" && o.TypeRef < nDecl {
			// replacing the field's own node may cascade the type away before the edge is added
			if n, ok := scratch.m.nodes[baseId(o.K)]; ok && n.version != scratch.m.fileVer[fileOf(o.K)] {
				o.TypeRef = keyString
			}
		}
		_ = scratch.apply(o)
		ops = append(ops, o)
	}
	return ops
}

// parallel runs histories on all cores; outcomes are recorded in submission order per worker
// (counts are order-independent; witnesses are shrunk in the collecting goroutine).
func (rs *runState) parallel(produce func(emit func(task))) {
	workers := runtime.NumCPU()
	tasks := make(chan task, 1024)
	outs := make(chan outcome, 1024)
	var wg sync.WaitGroup
	for w := 0; w < workers; w++ {
		wg.Add(1)
		go func() {
			defer wg.Done()
			for t := range tasks {
				if t.gen {
					t.ops = genHistory(t.seed, t.n)
				}
				at, kind, detail, amb := runHistory(t.ops, t.everyStep)
				outs <- outcome{t.ops, at, kind, detail, amb, t.gen}
			}
		}()
	}
	go func() {
		produce(func(t task) { tasks <- t })
		close(tasks)
		wg.Wait()
		close(outs)
	}()
	for o := range outs {
		rs.record(o)
	}
}

type runState struct {
	onRandom   func([]Op)
	res        *report.Result
	perKind    map[string]int
	suppressed int
}

// two real kinds of which one is a textual prefix of the other
var exKinds = []string{"ty", "typaram"}

func exhaustiveAlphabet() []Op {
	var ops []Op
	for k := 0; k < 3; k++ {
		ops = append(ops, Op{Kind: "alias", K: k})
		ops = append(ops, Op{Kind: "struct", K: k, Fields: []int{(k + 1) % 3}})
		ops = append(ops, Op{Kind: "rmnode", K: k})
	}
	for i := 0; i < 3; i++ {
		for j := 0; j < 3; j++ {
			for _, kd := range exKinds {
				ops = append(ops, Op{Kind: "edge", From: i, To: j, EdgeKind: kd})
				ops = append(ops, Op{Kind: "unedge", From: i, To: j, EdgeKind: kd})
			}
			ops = append(ops, Op{Kind: "unedge", From: i, To: j})
		}
	}
	ops = append(ops, Op{Kind: "touch", File: 0})
	return ops
}

// every kind the package declares (several pairs share a textual prefix: ty/typaram, re-f/re-t, param/...)
var rndEdgeKinds = []string{"ref", "ty", "typaram", "fld", "val", "ret", "recv", "param", "cnt", "inst", "init", "alias", "embed", "doc", "call"}

func randomOp(r *rand.Rand) Op {
	k := func() int { return r.Intn(nDecl) }
	kx := func() int { return r.Intn(nKeys) }
	subset := func(max int) []int {
		n := r.Intn(max + 1)
		out := []int{}
		for i := 0; i < n; i++ {
			out = append(out, k())
		}
		return out
	}
	switch p := r.Intn(100); {
	case p < 10:
		return Op{Kind: "alias", K: k()}
	case p < 22:
		return Op{Kind: "struct", K: k(), Fields: subset(3)}
	case p < 32:
		return Op{Kind: "field", K: k(), TypeRef: []int{keyString, keyInt, -1}[r.Intn(3)]}
	case p < 40:
		o := Op{Kind: "enum", K: k(), EnumKind: []string{"string", "int"}[r.Intn(2)]}
		for _, v := range subset(2) {
			if v != o.K {
				o.Values = append(o.Values, v)
			}
		}
		return o
	case p < 43:
		return Op{Kind: "prim", Name: []string{"string", "int", "bool"}[r.Intn(3)]}
	case p < 46:
		return Op{Kind: "special", Name: []string{"error", "time.Time", "any"}[r.Intn(3)]}
	case p < 68:
		return Op{Kind: "edge", From: k(), To: kx(), EdgeKind: rndEdgeKinds[r.Intn(len(rndEdgeKinds))]}
	case p < 82:
		o := Op{Kind: "unedge", From: k(), To: kx()}
		if r.Intn(3) != 0 {
			o.EdgeKind = rndEdgeKinds[r.Intn(len(rndEdgeKinds))]
		}
		return o
	case p < 95:
		return Op{Kind: "rmnode", K: kx()}
	default:
		return Op{Kind: "touch", File: r.Intn(2)}
	}
}

func Run(seed int64, tier string) *report.Result {
	res := &report.Result{Property: "C17"}
	rs := &runState{res: res, perKind: map[string]int{}}
	maxLen, nRandom := 3, 20000
	if tier == "thorough" {
		maxLen, nRandom = 4, 400000
	}
	alpha := exhaustiveAlphabet()
	exCount := 0
	rs.parallel(func(emit func(task)) {
		var rec func(prefix []Op)
		rec = func(prefix []Op) {
			if len(prefix) > 0 {
				emit(task{ops: prefix})
				exCount++
			}
			if len(prefix) == maxLen {
				return
			}
			for _, o := range alpha {
				rec(append(append([]Op(nil), prefix...), o))
			}
		}
		rec(nil)
	})

	r := rng.New(seed, "C17", "random")
	dist := report.NewDistincter()
	opCount := map[string]int{}
	rs.onRandom = func(ops []Op) {
		for _, o := range ops {
			opCount[o.Kind]++
		}
		dist.Add(opStrings(ops))
		if len(res.Samples) < 3 && len(ops) < 14 && len(ops) > 4 {
			res.Samples = append(res.Samples, opStrings(ops))
		}
	}
	rs.parallel(func(emit func(task)) {
		for n := 0; n < nRandom; n++ {
			emit(task{everyStep: true, gen: true, seed: seed, n: n})
		}
	})
	_ = r
	nNoop := nRandom / 4
	ranNoop := rs.noopStage(seed, nNoop)
	res.Extra("noop_pair_part", map[string]any{"histories": ranNoop, "rule": "the random histories again without their file-version bumps, each with AddEdge(X,Y,k);RemoveEdge(X,Y,k|nil) inserted at a random position on a pair without edges: every public answer after every later operation must equal the run without the pair (graph against graph, so the ambiguity zones are covered too)"})
	res.Distinct = exCount + dist.N()
	res.Rule = fmt.Sprintf("exhaustive: every history of 1..%d operations over a %d-letter alphabet (AddAlias/AddStruct/RemoveNode on 3 keys, AddEdge/RemoveEdge(kind|nil) on all 9 ordered pairs x 2 kinds (ty and typaram: one is a textual prefix of the other), one file-version bump), final state compared (every prefix is itself enumerated); random: %d histories of 1..60 operations over 6 keys in 2 files x 2+ versions, all 15 declared edge kinds, all typed adders, full read-back (Exists/Get/GetEdges/Children/Parents/Descendants/FindByKind on all 8 keys) after every operation. distinct = enumerated histories are distinct by construction + distinct random histories by content", maxLen, len(alpha), nRandom)
	res.Extra("exhaustive_part", map[string]any{"histories": exCount, "max_len": maxLen, "alphabet": len(alpha)})
	res.Extra("random_part", map[string]any{"histories": nRandom, "ops_by_kind": opCount})
	res.Extra("violations_not_shrunk", rs.suppressed)
	res.Samples = append(res.Samples, opStrings([]Op{{Kind: "struct", K: 0, Fields: []int{1}}, {Kind: "edge", From: 0, To: 1, EdgeKind: "ref"}, {Kind: "unedge", From: 0, To: 1, EdgeKind: "ref"}}))
	res.Assumptions = []string{
		"node identity = SymbolKey.BaseId(); a reference to a live node carries that node's current file version, a reference to an absent node the file's current version",
		"cascade decisions that hinge on dangling edges only, and nodes added while a dangling edge references another version of them, are ambiguity zones (counted, not judged)",
		"AddField with a declared type is only issued while that type node exists (AddField reports an error otherwise)",
	}
	return res
}

// ---------- metamorphic stage: a no-op edge pair ----------
//
// AddEdge(X,Y,k) immediately followed by RemoveEdge(X,Y,k|nil), for a pair that has no edge at that point,
// leaves the set-of-nodes/set-of-edges model unchanged, so every later public answer of the graph must read
// the same with and without the pair. The model is not consulted for the verdict (only for the versions the
// references carry, which are the same in both runs), so the comparison also covers histories that wander
// into the ambiguity zones where the model abstains: whatever the graph decides there, it must not depend
// on bookkeeping left behind by an edge that no longer exists.

func (r *runner) sutFingerprint() string {
	var sb strings.Builder
	names := func(ns []*symboldg.SymbolNode) string { return strings.Join(sortedKeys(nodeSet(ns)), ",") }
	for k := 0; k < nKeys; k++ {
		key := r.s.key(k, r.verOf(k))
		n := r.s.g.Get(key)
		fmt.Fprintf(&sb, "%s:%v/%v[", keyName(k), r.s.g.Exists(key), n != nil)
		var es []string
		for _, d := range r.s.g.GetEdges(key, nil) {
			es = append(es, edgeStr(d.Edge.From.BaseId(), d.Edge.To.BaseId(), string(d.Edge.Kind)))
		}
		sort.Strings(es)
		sb.WriteString(strings.Join(es, ";") + "]")
		if n != nil {
			sb.WriteString(" ch=" + names(r.s.g.Children(n, nil)) + " pa=" + names(r.s.g.Parents(n, nil)) + " de=" + names(r.s.g.Descendants(n, nil)))
		}
		sb.WriteString(" | ")
	}
	sb.WriteString("all=" + names(r.s.g.FindByKind(allKinds...)))
	return sb.String()
}

// traceOf runs ops on a fresh graph and returns the fingerprint after every operation.
func traceOf(ops []Op) (out, errs []string) {
	r := &runner{s: newSut(), m: newModel()}
	out = make([]string, 0, len(ops))
	for _, o := range ops {
		e := ""
		if err := r.apply(o); err != nil {
			e = " err=" + firstLine(err.Error())
		}
		fp := ""
		func() {
			defer func() {
				if rec := recover(); rec != nil {
					fp = fmt.Sprintf("PANIC in read-back: %v", rec)
				}
			}()
			fp = r.sutFingerprint()
		}()
		out = append(out, fp)
		errs = append(errs, e)
	}
	return out, errs
}

func firstLine(s string) string {
	if i := strings.IndexByte(s, '\n'); i >= 0 {
		return s[:i]
	}
	return s
}

// noopPairDiff compares ops with ops minus the pair at positions p, p+1. Returns the index (in ops) of the first
// operation after which the answers differ, or -1.
func noopPairDiff(ops []Op, p int) (int, string) {
	without := append(append([]Op(nil), ops[:p]...), ops[p+2:]...)
	a, ae := traceOf(without)
	b, be := traceOf(ops)
	if p > 0 && b[p+1] != a[p-1] {
		return p + 1, fmt.Sprintf("answers right after the pair: %s | before it: %s", b[p+1], a[p-1])
	}
	for i := p; i < len(without); i++ {
		if a[i] != b[i+2] || ae[i] != be[i+2] {
			return i + 2, fmt.Sprintf("after %s, with the pair: %s%s | without: %s%s", ops[i+2], b[i+2], be[i+2], a[i], ae[i])
		}
	}
	return -1, ""
}

// insertNoopPair picks a position and a pair without any edge at that position.
func insertNoopPair(ops []Op, r *rand.Rand) ([]Op, int) {
	p := r.Intn(len(ops) + 1)
	sc := &runner{s: newSut(), m: newModel()}
	for _, o := range ops[:p] {
		_ = sc.apply(o)
	}
	for try := 0; try < 8; try++ {
		x, y := r.Intn(nDecl), r.Intn(nDecl)
		if x == y {
			continue
		}
		busy := false
		for e := range sc.m.edges {
			if (e.from == baseId(x) && e.to == baseId(y)) || (e.from == baseId(y) && e.to == baseId(x)) {
				busy = true
			}
		}
		if busy {
			continue
		}
		kind := exKinds[r.Intn(len(exKinds))]
		rm := kind
		if r.Intn(2) == 0 {
			rm = ""
		}
		out := append([]Op(nil), ops[:p]...)
		out = append(out, Op{Kind: "edge", From: x, To: y, EdgeKind: kind}, Op{Kind: "unedge", From: x, To: y, EdgeKind: rm})
		out = append(out, ops[p:]...)
		return out, p
	}
	return nil, -1
}

func isNoopPair(a, b Op) bool {
	return a.Kind == "edge" && b.Kind == "unedge" && a.From == b.From && a.To == b.To && a.From != a.To && (b.EdgeKind == "" || b.EdgeKind == a.EdgeKind)
}

func (rs *runState) noopStage(seed int64, n int) (ran int) {
	type out struct {
		ops    []Op
		at     int
		detail string
	}
	workers := runtime.NumCPU()
	idx := make(chan int, 1024)
	outs := make(chan out, 1024)
	var wg sync.WaitGroup
	for w := 0; w < workers; w++ {
		wg.Add(1)
		go func() {
			defer wg.Done()
			for i := range idx {
				// no file-version bumps here: with stale-version references the graph's cascade depends on map
				// iteration order (the model's version zones, not judged anywhere), which would make a
				// graph-against-graph comparison unsound
				var base []Op
				for _, o := range genHistory(seed, i) {
					if o.Kind != "touch" {
						base = append(base, o)
					}
				}
				if len(base) == 0 {
					outs <- out{}
					continue
				}
				ops, p := insertNoopPair(base, rng.New(seed, "C17", "noop-pair", fmt.Sprint(i)))
				if ops == nil {
					outs <- out{}
					continue
				}
				at, d := noopPairDiff(ops, p)
				outs <- out{ops, at, d}
			}
		}()
	}
	go func() {
		for i := 0; i < n; i++ {
			idx <- i
		}
		close(idx)
		wg.Wait()
		close(outs)
	}()
	for o := range outs {
		if o.ops == nil {
			rs.res.Inc("no-op pair stage: no free pair found (skipped)")
			continue
		}
		ran++
		rs.res.Evaluations++
		if o.at >= 0 {
			if rs.perKind["noop-edge-pair-changes-answers"] >= 25 {
				rs.suppressed++
				continue
			}
			rs.perKind["noop-edge-pair-changes-answers"]++
			h := o.ops[:o.at+1]
			rs.res.AddViolation("noop-edge-pair-changes-answers", map[string]string{"stage": "noop-pair"}, fmt.Sprintf("history %v: AddEdge immediately undone by RemoveEdge on a pair without edges changes later answers: %s", opStrings(h), o.detail), h)
		}
	}
	return ran
}

func Replay(ops []Op) *report.Result {
	res := &report.Result{Property: "C17"}
	rs := &runState{res: res, perKind: map[string]int{}}
	rs.judge(ops, true)
	for p := 0; p+1 < len(ops); p++ {
		if isNoopPair(ops[p], ops[p+1]) {
			if at, d := noopPairDiff(ops, p); at >= 0 {
				res.AddViolation("noop-edge-pair-changes-answers", map[string]string{"stage": "noop-pair"}, fmt.Sprintf("history %v: %s", opStrings(ops), d), ops)
				break
			}
		}
	}
	fmt.Println(opStrings(ops))
	res.Distinct = 2
	return res
}
