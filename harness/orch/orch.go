// Package orch is the orchestrator's toolbox: building the real code from /repo's working tree,
// running child processes with files for stdio, parallel maps.
package orch

import (
	"bytes"
	"fmt"
	"os"
	"os/exec"
	"path/filepath"
	"runtime"
	"sync"
	"time"

	"verif/harness/report"
)

type Ctx struct {
	Prop     string
	Tier     string
	Seed     int64
	Work     string // scratch dir, removed by ./check
	Verif    string // /verif
	Harness  string // /verif/harness
	Repo     string // /repo
	Replay   string
	Started  time.Time
	builtMu  sync.Mutex
	built    map[string]string
	GoEnv    []string
	Parallel int
}

func NewCtx(prop, tier string, seed int64, work, verif, replay string) *Ctx {
	c := &Ctx{Prop: prop, Tier: tier, Seed: seed, Work: work, Verif: verif, Harness: filepath.Join(verif, "harness"), Repo: "/repo", Replay: replay, Started: time.Now(), built: map[string]string{}}
	c.GoEnv = append(os.Environ(),
		"GOFLAGS=-mod=mod", "GOPROXY=off", "GOSUMDB=off", "GOTOOLCHAIN=local",
		"PATH=/opt/veriftools/go1.26/bin:"+os.Getenv("PATH"),
	)
	c.Parallel = runtime.NumCPU()
	_ = os.MkdirAll(filepath.Join(work, "bin"), 0o755)
	return c
}

func (c *Ctx) Quick() bool { return c.Tier != "thorough" }

// goBuild builds pkg (relative to the harness module) into Work/bin/name, once.
func (c *Ctx) goBuild(name, pkg string, extra ...string) (string, error) {
	c.builtMu.Lock()
	defer c.builtMu.Unlock()
	if p, ok := c.built[name]; ok {
		return p, nil
	}
	out := filepath.Join(c.Work, "bin", name)
	args := append([]string{"build"}, extra...)
	args = append(args, "-o", out, pkg)
	cmd := exec.Command("go", args...)
	cmd.Dir = c.Harness
	cmd.Env = c.GoEnv
	var buf bytes.Buffer
	cmd.Stdout, cmd.Stderr = &buf, &buf
	if err := cmd.Run(); err != nil {
		return "", fmt.Errorf("go %v failed: %v\n%s", args, err, buf.String())
	}
	c.built[name] = out
	return out, nil
}

// CLI builds the gleece command from /repo's working tree with hooks on.
func (c *Ctx) CLI() (string, error) {
	return c.goBuild("gleece", "github.com/gopher-fleece/gleece/v2", "-tags", "verif")
}

// CLIRace builds the gleece command with the race detector (checkptr) on.
func (c *Ctx) CLIRace() (string, error) {
	return c.goBuild("gleece-race", "github.com/gopher-fleece/gleece/v2", "-tags", "verif", "-race")
}

// Inproc builds the in-process monitor binary (links /repo's packages).
func (c *Ctx) Inproc() (string, error) {
	return c.goBuild("inproc", "./cmd/inproc", "-tags", "verif")
}

type ProcResult struct {
	Exit     int
	TimedOut bool
	Stdout   string
	Stderr   string
	Wall     time.Duration
}

// Run executes a child with stdio redirected to files (never pipes), under `timeout -s QUIT`.
func Run(dir string, env []string, timeoutSec int, logPrefix string, argv ...string) ProcResult {
	outPath, errPath := logPrefix+".stdout", logPrefix+".stderr"
	outF, _ := os.Create(outPath)
	errF, _ := os.Create(errPath)
	full := append([]string{"-s", "QUIT", "-k", "10", fmt.Sprint(timeoutSec)}, argv...)
	cmd := exec.Command("timeout", full...)
	cmd.Dir = dir
	cmd.Env = env
	cmd.Stdout, cmd.Stderr = outF, errF
	t0 := time.Now()
	err := cmd.Run()
	wall := time.Since(t0)
	outF.Close()
	errF.Close()
	res := ProcResult{Wall: wall}
	if err != nil {
		if ee, ok := err.(*exec.ExitError); ok {
			res.Exit = ee.ExitCode()
		} else {
			res.Exit = -1
		}
	}
	if res.Exit == 124 || res.Exit == 137 || (res.Exit == 2 && wall >= time.Duration(timeoutSec)*time.Second) {
		res.TimedOut = wall >= time.Duration(timeoutSec)*time.Second
	}
	if b, e := os.ReadFile(outPath); e == nil {
		res.Stdout = string(b)
	}
	if b, e := os.ReadFile(errPath); e == nil {
		res.Stderr = string(b)
	}
	return res
}

// RunInproc runs one in-process monitor batch and reads back its result.
func (c *Ctx) RunInproc(monitor string, timeoutSec int, extra ...string) (*report.Result, error) {
	bin, err := c.Inproc()
	if err != nil {
		return nil, err
	}
	out := filepath.Join(c.Work, monitor+".result.json")
	args := []string{bin, monitor, "-seed", fmt.Sprint(c.Seed), "-tier", c.Tier, "-out", out}
	if c.Replay != "" {
		args = append(args, "-replay", c.Replay)
	}
	args = append(args, extra...)
	pr := Run(c.Work, append(c.GoEnv, "GOGC=800"), timeoutSec, filepath.Join(c.Work, monitor), args...)
	if pr.Stdout != "" && c.Replay != "" {
		fmt.Print(pr.Stdout)
	}
	if pr.Exit != 0 {
		tail := pr.Stderr
		if len(tail) > 3000 {
			tail = tail[len(tail)-3000:]
		}
		return nil, fmt.Errorf("monitor %s exited %d (timed out: %v)\n%s", monitor, pr.Exit, pr.TimedOut, tail)
	}
	return report.ReadResult(out)
}

// ParallelMap runs f over 0..n-1 on Parallel workers.
func ParallelMap(n, workers int, f func(i int)) {
	if workers < 1 {
		workers = 1
	}
	var wg sync.WaitGroup
	ch := make(chan int)
	for w := 0; w < workers; w++ {
		wg.Add(1)
		go func() {
			defer wg.Done()
			for i := range ch {
				f(i)
			}
		}()
	}
	for i := 0; i < n; i++ {
		ch <- i
	}
	close(ch)
	wg.Wait()
}
