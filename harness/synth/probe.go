package synth

import (
	"fmt"
	"strings"
)

// SampleExpr renders a Go expression of type t as seen from package `from` that the probe
// methods return on success (non-zero where cheap, so that cross-engine body comparison means
// something), and the JSON text that expression marshals to.
func (p *Project) SampleExpr(t T, from string, q func(string) string) (expr string, jsonText string) {
	switch t.K {
	case "prim":
		switch {
		case t.Name == "string":
			return `"sample"`, `"sample"`
		case t.Name == "bool":
			return "true", "true"
		case strings.HasPrefix(t.Name, "float"):
			return t.Name + "(1.5)", "1.5"
		default:
			return t.Name + "(42)", "42"
		}
	case "named":
		name := t.GoExpr(from, q)
		if e := p.Enum(t.Pkg, t.Name); e != nil {
			lit := e.Values[0].Lit
			js := lit
			return name + "(" + lit + ")", js
		}
		if a := p.Alias(t.Pkg, t.Name); a != nil {
			ex, js := p.SampleExpr(Prim(a.Base), from, q)
			return name + "(" + ex + ")", js
		}
		return name + "{}", ""
	case "slice":
		ex, js := p.SampleExpr(*t.Elem, from, q)
		if js == "" {
			return t.GoExpr(from, q) + "{" + ex + "}", ""
		}
		return t.GoExpr(from, q) + "{" + ex + "}", "[" + js + "]"
	case "ptr":
		ex, js := p.SampleExpr(*t.Elem, from, q)
		return "vprobe.Ptr(" + ex + ")", js
	case "map":
		ex, js := p.SampleExpr(*t.Elem, from, q)
		if js == "" {
			return t.GoExpr(from, q) + "{\"k\": " + ex + "}", ""
		}
		return t.GoExpr(from, q) + "{\"k\": " + ex + "}", `{"k":` + js + `}`
	case "bytes":
		return `[]byte("bytes")`, `"Ynl0ZXM="`
	case "time":
		return "time.Unix(1700000000, 0).UTC()", `"2023-11-14T22:13:20Z"`
	case "any":
		return `any("any-value")`, `"any-value"`
	}
	return "nil", "null"
}

// ProbeBody is the BodyFn of the router labs: record the call, then behave as X-Verif-Behave says.
func ProbeBody(p *Project, c *Controller, m *Method, q func(string) string) (string, []string) {
	imports := []string{p.ModPath + "/vprobe", "errors", "github.com/gopher-fleece/runtime"}
	var args []string
	for _, pr := range m.Params {
		args = append(args, pr.GoName)
	}
	var sb strings.Builder
	pkgName := p.Pkg(c.Pkg).Name
	sb.WriteString(fmt.Sprintf("\tvprobe.Call(c.GetContext(), %q, %q", pkgName+"."+c.Name, m.Name))
	for _, a := range args {
		sb.WriteString(", " + a)
	}
	sb.WriteString(")\n")
	errVal := `errors.New("boom")`
	okErr := "nil"
	if m.ErrType != "" {
		errVal = m.ErrType + `{error: errors.New("boom"), Code: 7, Reason: "custom"}`
		okErr = m.ErrType + "{}"
		if m.ErrPtr {
			errVal = "&" + errVal
			okErr = "nil"
		}
	}
	zero := ""
	ret := func(val, err string) string {
		if m.Ret != nil {
			return "return " + val + ", " + err
		}
		return "return " + err
	}
	if m.Ret != nil {
		sb.WriteString("\tvar zero " + m.Ret.GoExpr(c.Pkg, q) + "\n")
		zero = "zero"
	}
	sb.WriteString("\tswitch vprobe.Behave(c.GetContext()) {\n")
	sb.WriteString("\tcase \"err\":\n\t\t" + ret(zero, errVal) + "\n")
	sb.WriteString("\tcase \"status\":\n\t\tc.SetStatus(runtime.StatusTeapot)\n")
	sb.WriteString("\tcase \"header\":\n\t\tc.SetHeader(\"X-Out\", \"out-value\")\n")
	sb.WriteString("\tcase \"errstatus\":\n\t\tc.SetStatus(runtime.StatusConflict)\n\t\t" + ret(zero, errVal) + "\n")
	sb.WriteString("\t}\n")
	if m.Ret != nil {
		ex, _ := p.SampleExpr(*m.Ret, c.Pkg, q)
		sb.WriteString("\t_ = zero\n")
		sb.WriteString("\t" + ret(ex, okErr) + "\n")
		if strings.Contains(ex, "time.Unix") {
			imports = append(imports, "time")
		}
	} else {
		sb.WriteString("\t" + ret("", okErr) + "\n")
	}
	return sb.String(), imports
}
