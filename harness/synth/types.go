// Package synth holds the abstract project descriptor (the ground truth by construction), the
// seeded generator and the renderer that turns a descriptor into a Go module subtree + config.
package synth

import (
	"fmt"
	"sort"
	"strings"
)

// T is a Go type expression used for parameters, fields and results.
type T struct {
	K    string `json:"k"`              // prim | named | slice | ptr | map | bytes | time | any | ctx
	Name string `json:"name,omitempty"` // prim: Go name; named: declared type name
	Pkg  string `json:"pkg,omitempty"`  // named: package key
	Elem *T     `json:"elem,omitempty"`
}

func Prim(n string) T       { return T{K: "prim", Name: n} }
func Named(pkg, n string) T { return T{K: "named", Name: n, Pkg: pkg} }
func Slice(e T) T           { return T{K: "slice", Elem: &e} }
func Ptr(e T) T             { return T{K: "ptr", Elem: &e} }
func MapOf(e T) T           { return T{K: "map", Elem: &e} }
func (t T) IsPtr() bool     { return t.K == "ptr" }
func (t T) Deref() T {
	if t.K == "ptr" {
		return *t.Elem
	}
	return t
}
func (t T) IsSlice() bool { return t.K == "slice" }

// Base strips pointers and slices.
func (t T) Base() T {
	for t.K == "ptr" || t.K == "slice" {
		t = *t.Elem
	}
	return t
}

// GoExpr renders the type as seen from package `from` (package key) using qualifier q(pkgKey).
func (t T) GoExpr(from string, q func(pkgKey string) string) string {
	switch t.K {
	case "prim":
		return t.Name
	case "named":
		if t.Pkg == from || t.Pkg == "" {
			return t.Name
		}
		return q(t.Pkg) + "." + t.Name
	case "slice":
		return "[]" + t.Elem.GoExpr(from, q)
	case "ptr":
		return "*" + t.Elem.GoExpr(from, q)
	case "map":
		return "map[string]" + t.Elem.GoExpr(from, q)
	case "bytes":
		return "[]byte"
	case "time":
		return "time.Time"
	case "any":
		return "any"
	case "ctx":
		return "context.Context"
	}
	return "BAD_" + t.K
}

// Walk visits every named type mentioned.
func (t T) Walk(f func(T)) {
	f(t)
	if t.Elem != nil {
		t.Elem.Walk(f)
	}
}

type Field struct {
	GoName    string `json:"go"`
	Type      T      `json:"type"`
	JSONName  string `json:"json,omitempty"` // "" = no json tag; "-" = hidden
	OmitEmpty bool   `json:"omitempty,omitempty"`
	Validate  string `json:"validate,omitempty"`
	Embedded  bool   `json:"embedded,omitempty"`
	Descr     string `json:"descr,omitempty"`
	// GroupWithNext declares this field together with the next one (A, B T): both share type and tags
	GroupWithNext bool `json:"group_with_next,omitempty"`
	// Deprecated renders a // @Deprecated annotation above the field (a usage-site decoration)
	Deprecated bool `json:"deprecated,omitempty"`
}

func (f Field) Exported() bool {
	n := f.GoName
	if f.Embedded {
		n = f.Type.Base().Name
	}
	return n != "" && n[0] >= 'A' && n[0] <= 'Z'
}

// WireName is the JSON property name ("" when the field is not JSON-visible).
func (f Field) WireName() string {
	if f.Embedded || !f.Exported() || f.JSONName == "-" {
		return ""
	}
	if f.JSONName != "" {
		return f.JSONName
	}
	return f.GoName
}

type Struct struct {
	// ErrorLast embeds `error` after the fields instead of before them (only with IsError)
	ErrorLast bool    `json:"error_last,omitempty"`
	Name      string  `json:"name"`
	Pkg       string  `json:"pkg"`
	Fields    []Field `json:"fields"`
	Descr     string  `json:"descr,omitempty"`
	IsError   bool    `json:"is_error,omitempty"` // embeds `error`
}

type EnumConst struct {
	Name string `json:"name"`
	Lit  string `json:"lit"`  // Go literal as written
	Text string `json:"text"` // printed form (%v)
}

type Enum struct {
	// SplitConsts declares the second half of the constants in another file of the package
	SplitConsts bool        `json:"split_consts,omitempty"`
	Name        string      `json:"name"`
	Pkg         string      `json:"pkg"`
	Base        string      `json:"base"`
	Assigned    bool        `json:"assigned,omitempty"` // type X = int
	Values      []EnumConst `json:"values"`
	Decoys      []EnumConst `json:"decoys,omitempty"` // constants of the *base* type in the same package (not members)
}

type Alias struct {
	Name     string `json:"name"`
	Pkg      string `json:"pkg"`
	Base     string `json:"base"` // primitive
	Assigned bool   `json:"assigned,omitempty"`
}

type Param struct {
	// OwnField keeps this parameter out of a grouped field even if its neighbour has the same type
	OwnField bool `json:"own_field,omitempty"`
	// BreakBefore starts a new source line before this parameter (multi-line signatures / grouped fields
	// that span lines); position marks of such methods only cover what precedes the first break
	BreakBefore bool   `json:"break_before,omitempty"`
	GoName      string `json:"go"`
	Type        T      `json:"type"`
	In          string `json:"in"` // path | query | header | form | body | ctx
	Wire        string `json:"wire,omitempty"`
	Validate    string `json:"validate,omitempty"`
	Descr       string `json:"descr,omitempty"`
	AnnName     string `json:"ann_name,omitempty"` // value written in the annotation when it differs from GoName (perturbations)
}

func (p Param) AnnValue() string {
	if p.AnnName != "" {
		return p.AnnName
	}
	return p.GoName
}

func (p Param) WireName() string {
	if p.Wire != "" {
		return p.Wire
	}
	return p.GoName
}

// Required follows DESIGN A.3.
func (p Param) Required() bool {
	if !p.Type.IsPtr() || p.In == "path" {
		return true
	}
	for _, r := range strings.Split(p.Validate, ",") {
		if r == "required" {
			return true
		}
	}
	return false
}

type Security struct {
	Scheme string   `json:"scheme"`
	Scopes []string `json:"scopes"`
	// Descr is free text after the annotation (may itself contain "})")
	Descr string `json:"descr,omitempty"`
}

type ErrResp struct {
	Code  int    `json:"code"`
	Descr string `json:"descr,omitempty"`
}

type Method struct {
	// LeadLines are comment lines written before anything else of the doc block ("//", "// ")
	LeadLines []string `json:"lead_lines,omitempty"`
	// HiddenArg renders @Hidden(<arg>) instead of the bare form
	HiddenArg string `json:"hidden_arg,omitempty"`
	// GroupParams renders consecutive parameters of one type as a single grouped field (a, b, c string)
	GroupParams  bool       `json:"group_params,omitempty"`
	Name         string     `json:"name"`
	File         int        `json:"file"` // index into Controller.Files
	Verb         string     `json:"verb"` // "" = no @Method (not an endpoint)
	Route        string     `json:"route"`
	NoRouteAnn   bool       `json:"no_route_ann,omitempty"`
	Hidden       bool       `json:"hidden,omitempty"`
	Deprecated   bool       `json:"deprecated,omitempty"`
	Descr        string     `json:"descr,omitempty"`
	UseDescrAnn  bool       `json:"use_descr_ann,omitempty"`
	Security     []Security `json:"security,omitempty"`
	Params       []Param    `json:"params,omitempty"`
	Ret          *T         `json:"ret,omitempty"`
	ErrType      string     `json:"err_type,omitempty"` // "" = error; else name of a custom error struct in the controller's package
	ErrPtr       bool       `json:"err_ptr,omitempty"`
	Response     int        `json:"response,omitempty"` // @Response code, 0 = none
	RespDescr    string     `json:"resp_descr,omitempty"`
	ErrResponses []ErrResp  `json:"err_responses,omitempty"`
	ValueRecv    bool       `json:"value_recv,omitempty"` // func (c Ctl) instead of (c *Ctl)
	// Raw overrides for perturbation operators (C10/C14/C18): extra comment lines and a raw signature.
	ExtraAnn []string `json:"extra_ann,omitempty"`
	DropAnn  []string `json:"drop_ann,omitempty"` // annotation keys to omit, e.g. "Path:id", "Query:q"
	RawSig   string   `json:"raw_sig,omitempty"`  // replaces "(params) (results)" entirely
	RawBody  string   `json:"raw_body,omitempty"`
}

func (m Method) IsEndpoint() bool { return m.Verb != "" && !m.NoRouteAnn && m.Route != "" }

type Controller struct {
	// Grouped declares the controller inside a `type ( ... )` block that has a doc comment of its own
	Grouped bool `json:"grouped,omitempty"`
	// LeadFields are field declarations placed before the embedded runtime.GleeceController ("mu sync.Mutex")
	LeadFields []string   `json:"lead_fields,omitempty"`
	Name       string     `json:"name"`
	Pkg        string     `json:"pkg"`
	Files      []string   `json:"files"`
	Route      string     `json:"route"`
	NoRouteAnn bool       `json:"no_route_ann,omitempty"`
	Tag        string     `json:"tag"`
	NoTag      bool       `json:"no_tag,omitempty"`
	Descr      string     `json:"descr,omitempty"`
	Security   []Security `json:"security,omitempty"`
	Methods    []Method   `json:"methods"`
	Decoy      bool       `json:"decoy,omitempty"` // lives in a file not matched by the globs
	ExtraAnn   []string   `json:"extra_ann,omitempty"`
}

type Pkg struct {
	Key  string `json:"key"`
	Dir  string `json:"dir"`  // relative to the project root
	Name string `json:"name"` // package clause
}

type SecScheme struct {
	Name        string `json:"name"`
	Type        string `json:"type"`
	In          string `json:"in,omitempty"`
	FieldName   string `json:"fieldName,omitempty"`
	Scheme      string `json:"scheme,omitempty"`
	Description string `json:"description"`
	// oauth2 / openIdConnect
	Flows            map[string]*OAuthFlow `json:"flows,omitempty"`
	OpenIDConnectURL string                `json:"openIdConnectUrl,omitempty"`
}

type OAuthFlow struct {
	AuthorizationURL string            `json:"authorizationUrl,omitempty"`
	TokenURL         string            `json:"tokenUrl,omitempty"`
	RefreshURL       string            `json:"refreshUrl,omitempty"`
	Scopes           map[string]string `json:"scopes"`
}

type Config struct {
	Engine          string      `json:"engine"`
	OpenAPI         string      `json:"openapi"`
	Globs           []string    `json:"globs"`
	RoutesOut       string      `json:"routes_out"`
	SpecOut         string      `json:"spec_out"`
	Perms           string      `json:"perms,omitempty"`
	PackageName     string      `json:"package_name,omitempty"`
	AuthPkg         string      `json:"auth_pkg"`
	Enforce         bool        `json:"enforce,omitempty"`
	ValidateResp    bool        `json:"validate_resp,omitempty"`
	SkipDate        bool        `json:"skip_date"`
	TopLevelEnum    bool        `json:"top_level_enum,omitempty"`
	EnumValidator   bool        `json:"enum_validator,omitempty"`
	Title           string      `json:"title"`
	Version         string      `json:"version"`
	InfoDescr       string      `json:"info_descr,omitempty"`
	Terms           string      `json:"terms,omitempty"`
	ContactName     string      `json:"contact_name,omitempty"`
	ContactURL      string      `json:"contact_url,omitempty"`
	ContactEmail    string      `json:"contact_email,omitempty"`
	LicenseName     string      `json:"license_name,omitempty"`
	LicenseURL      string      `json:"license_url,omitempty"`
	BaseURL         string      `json:"base_url"`
	Schemes         []SecScheme `json:"schemes"`
	DefaultSecurity *Security   `json:"default_security,omitempty"`
}

type Project struct {
	Name        string       `json:"name"`     // directory name below the lab module root
	ModPath     string       `json:"mod_path"` // import path of the project root
	Pkgs        []Pkg        `json:"pkgs"`
	Structs     []Struct     `json:"structs,omitempty"`
	Enums       []Enum       `json:"enums,omitempty"`
	Aliases     []Alias      `json:"aliases,omitempty"`
	Controllers []Controller `json:"controllers"`
	Config      Config       `json:"config"`
	// ExtraFiles are written verbatim (perturbations, decoys, broken files): path relative to root.
	ExtraFiles map[string]string `json:"extra_files,omitempty"`
	Features   map[string]bool   `json:"features,omitempty"` // generator-attested facts used by known-finding signatures
}

func (p *Project) Pkg(key string) *Pkg {
	for i := range p.Pkgs {
		if p.Pkgs[i].Key == key {
			return &p.Pkgs[i]
		}
	}
	return nil
}

func (p *Project) ImportPath(key string) string {
	pk := p.Pkg(key)
	if pk == nil {
		return "MISSING/" + key
	}
	return p.ModPath + "/" + pk.Dir
}

func (p *Project) Struct(pkg, name string) *Struct {
	for i := range p.Structs {
		if p.Structs[i].Name == name && (pkg == "" || p.Structs[i].Pkg == pkg) {
			return &p.Structs[i]
		}
	}
	return nil
}

func (p *Project) Enum(pkg, name string) *Enum {
	for i := range p.Enums {
		if p.Enums[i].Name == name && (pkg == "" || p.Enums[i].Pkg == pkg) {
			return &p.Enums[i]
		}
	}
	return nil
}

func (p *Project) Alias(pkg, name string) *Alias {
	for i := range p.Aliases {
		if p.Aliases[i].Name == name && (pkg == "" || p.Aliases[i].Pkg == pkg) {
			return &p.Aliases[i]
		}
	}
	return nil
}

// KindOf classifies a named type.
func (p *Project) KindOf(t T) string {
	if t.K != "named" {
		return t.K
	}
	if p.Struct(t.Pkg, t.Name) != nil {
		return "struct"
	}
	if p.Enum(t.Pkg, t.Name) != nil {
		return "enum"
	}
	if p.Alias(t.Pkg, t.Name) != nil {
		return "alias"
	}
	return "unknown"
}

func (p *Project) SetFeature(k string) {
	if p.Features == nil {
		p.Features = map[string]bool{}
	}
	p.Features[k] = true
}

func (p *Project) HasFeature(k string) bool { return p.Features[k] }

func (p *Project) FeatureList() []string {
	var ks []string
	for k, v := range p.Features {
		if v {
			ks = append(ks, k)
		}
	}
	sort.Strings(ks)
	return ks
}

// EffectiveSecurity follows DESIGN A.2.
func (p *Project) EffectiveSecurity(c *Controller, m *Method) []Security {
	if len(m.Security) > 0 {
		return m.Security
	}
	if len(c.Security) > 0 {
		return c.Security
	}
	if p.Config.DefaultSecurity != nil {
		return []Security{*p.Config.DefaultSecurity}
	}
	return nil
}

// FullRoute is the normal form of DESIGN A.1.
func FullRoute(c *Controller, m *Method) string {
	raw := c.Route + m.Route
	var sb strings.Builder
	prev := byte(0)
	for i := 0; i < len(raw); i++ {
		if raw[i] == '/' && prev == '/' {
			continue
		}
		sb.WriteByte(raw[i])
		prev = raw[i]
	}
	return sb.String()
}

func (s Security) String() string { return fmt.Sprintf("%s%v", s.Scheme, s.Scopes) }
