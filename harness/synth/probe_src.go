package synth

import (
	"fmt"
	"strings"
)

// VProbeSource is the static event-log package copied into every router-lab project.
// It only records; all oracles run offline over the JSONL trace (DESIGN Appendix B).
const VProbeSource = `package vprobe

import (
	"context"
	"encoding/json"
	"fmt"
	"os"
	"sync"
	"sync/atomic"
)

type Event struct {
	Seq      int64             ` + "`json:\"seq\"`" + `
	Ev       string            ` + "`json:\"ev\"`" + `
	Eng      string            ` + "`json:\"eng,omitempty\"`" + `
	Rid      string            ` + "`json:\"rid,omitempty\"`" + `
	Ctl      string            ` + "`json:\"ctl,omitempty\"`" + `
	Method   string            ` + "`json:\"method,omitempty\"`" + `
	Args     []Arg             ` + "`json:\"args,omitempty\"`" + `
	Ctx      string            ` + "`json:\"ctx,omitempty\"`" + `
	Scheme   string            ` + "`json:\"scheme,omitempty\"`" + `
	Scopes   []string          ` + "`json:\"scopes,omitempty\"`" + `
	Decision string            ` + "`json:\"decision,omitempty\"`" + `
	Status   int               ` + "`json:\"status,omitempty\"`" + `
	Kind     string            ` + "`json:\"kind,omitempty\"`" + `
	Bytes    int               ` + "`json:\"bytes,omitempty\"`" + `
	CType    string            ` + "`json:\"ctype,omitempty\"`" + `
	Body     string            ` + "`json:\"body,omitempty\"`" + `
	Hdr      map[string]string ` + "`json:\"hdr,omitempty\"`" + `
	Detail   string            ` + "`json:\"detail,omitempty\"`" + `
}

type Arg struct {
	T string          ` + "`json:\"t\"`" + `
	V json.RawMessage ` + "`json:\"v\"`" + `
}

var (
	seq  int64
	mu   sync.Mutex
	out  *os.File
	// Resolve extracts (engine, rid, behaviour, policy) from an engine context; set by the probe main.
	Resolve func(engineCtx any) (eng, rid, behave, policy string)
)

type ctxKey struct{}

func Open(path string) error {
	f, err := os.Create(path)
	if err != nil {
		return err
	}
	out = f
	return nil
}

func Close() {
	mu.Lock()
	defer mu.Unlock()
	if out != nil {
		out.Close()
		out = nil
	}
}

func Log(e Event) {
	e.Seq = atomic.AddInt64(&seq, 1)
	b, err := json.Marshal(e)
	if err != nil {
		b = []byte(fmt.Sprintf("{\"seq\":%d,\"ev\":\"marshal-error\",\"detail\":%q}", e.Seq, err.Error()))
	}
	mu.Lock()
	if out != nil {
		out.Write(append(b, '\n'))
	}
	mu.Unlock()
}

func info(engineCtx any) (eng, rid, behave, policy string) {
	if Resolve == nil {
		return "?", "?", "", ""
	}
	return Resolve(engineCtx)
}

// Call is invoked first thing by every generated controller method.
func Call(engineCtx any, ctl, method string, args ...any) {
	eng, rid, _, _ := info(engineCtx)
	ev := Event{Ev: "call", Eng: eng, Rid: rid, Ctl: ctl, Method: method}
	for _, a := range args {
		if c, ok := a.(context.Context); ok {
			tok, _ := c.Value(ctxKey{}).(string)
			ev.Ctx = tok
			ev.Args = append(ev.Args, Arg{T: "context.Context", V: json.RawMessage("null")})
			if tok == "" {
				ev.Ctx = "<no token>"
			}
			continue
		}
		b, err := json.Marshal(a)
		if err != nil {
			b, _ = json.Marshal("unmarshalable: " + err.Error())
		}
		ev.Args = append(ev.Args, Arg{T: fmt.Sprintf("%T", a), V: b})
	}
	Log(ev)
}

// Behave tells the method how to behave for this request (header X-Verif-Behave).
func Behave(engineCtx any) string {
	_, _, b, _ := info(engineCtx)
	return b
}

// WithToken stores the per-request token a context parameter must carry.
func WithToken(ctx context.Context, rid string) context.Context {
	return context.WithValue(ctx, ctxKey{}, "tok-"+rid)
}

func Ptr[T any](v T) *T { return &v }

// AuthDecision implements the scripted policy: header X-Verif-Policy is a comma separated list of
// "<scheme>:<scopes joined by +>=<verdict>" items and an optional "*=<verdict>" default;
// verdict: ok | <status> | custom<status>. Every check is logged.
func AuthDecision(engineCtx any, scheme string, scopes []string) (approve bool, status int, custom bool) {
	eng, rid, _, policy := info(engineCtx)
	verdict := "ok"
	key := scheme + ":" + join(scopes)
	for _, item := range split(policy, ',') {
		k, v := cut(item, '=')
		if k == "*" || k == key || k == scheme {
			verdict = v
			if k == key {
				break
			}
		}
	}
	approve, status, custom = true, 0, false
	if verdict != "ok" && verdict != "" {
		approve = false
		s := verdict
		if len(s) > 6 && s[:6] == "custom" {
			custom = true
			s = s[6:]
		}
		fmt.Sscanf(s, "%d", &status)
		if status == 0 {
			status = 401
		}
	}
	d := "approve"
	if !approve {
		d = "refuse"
	}
	Log(Event{Ev: "auth", Eng: eng, Rid: rid, Scheme: scheme, Scopes: scopes, Decision: d, Status: status})
	return
}

func join(s []string) string {
	o := ""
	for i, x := range s {
		if i > 0 {
			o += "+"
		}
		o += x
	}
	return o
}

func split(s string, sep byte) []string {
	var out []string
	cur := ""
	for i := 0; i < len(s); i++ {
		if s[i] == sep {
			out = append(out, cur)
			cur = ""
		} else {
			cur += string(s[i])
		}
	}
	if cur != "" {
		out = append(out, cur)
	}
	return out
}

func cut(s string, sep byte) (string, string) {
	for i := len(s) - 1; i >= 0; i-- {
		if s[i] == sep {
			return s[:i], s[i+1:]
		}
	}
	return s, ""
}

type CustomPayload struct {
	Why  string ` + "`json:\"why\"`" + `
	Code int    ` + "`json:\"code\"`" + `
}
`

var engineCtxType = map[string]string{
	"gin":   "*gin.Context",
	"echo":  "echo.Context",
	"mux":   "*http.Request",
	"chi":   "*http.Request",
	"fiber": "*fiber.Ctx",
}

var engineImport = map[string]string{
	"gin":   "github.com/gin-gonic/gin",
	"echo":  "github.com/labstack/echo/v4",
	"mux":   "net/http",
	"chi":   "net/http",
	"fiber": "github.com/gofiber/fiber/v2",
}

var Engines = []string{"gin", "echo", "mux", "chi", "fiber"}

// AuthSource renders the instrumented authorization package of one engine.
func AuthSource(modPath, engine string) string {
	return fmt.Sprintf(`package auth

import (
	"context"

	%q
	"github.com/gopher-fleece/runtime"
	"%s/vprobe"
)

func GleeceRequestAuthorization(ctx context.Context, engineCtx %s, check runtime.SecurityCheck) (context.Context, *runtime.SecurityError) {
	approve, status, custom := vprobe.AuthDecision(engineCtx, check.SchemaName, check.Scopes)
	if approve {
		return ctx, nil
	}
	secErr := &runtime.SecurityError{Message: "refused by policy", StatusCode: runtime.HttpStatusCode(status)}
	if custom {
		secErr.CustomError = &runtime.CustomError{Payload: vprobe.CustomPayload{Why: "custom refusal", Code: status}}
	}
	return ctx, secErr
}
`, engineImport[engine], modPath, engineCtxType[engine])
}

// ProbeMainSource renders the driver that registers the available routers, replays workload.json
// and writes trace.jsonl. engines = those whose routes package compiled.
func ProbeMainSource(modPath string, engines []string) string {
	has := map[string]bool{}
	for _, e := range engines {
		has[e] = true
	}
	var imp, setup, mw strings.Builder
	for _, e := range engines {
		imp.WriteString(fmt.Sprintf("\tr%s \"%s/routes_%s\"\n", e, modPath, e))
	}
	if has["gin"] {
		imp.WriteString("\t\"github.com/gin-gonic/gin\"\n")
		setup.WriteString(`	gin.SetMode(gin.ReleaseMode)
	// every router is first registered on a throw-away engine instance: the instance that serves the
	// workload is the SECOND one of this process (registration must not depend on an earlier one)
	register("gin", func() { rgin.RegisterRoutes(gin.New()) })
	ginEngine := gin.New()
	if register("gin", func() { rgin.RegisterRoutes(ginEngine) }) {
		servers["gin"] = func(req *http.Request) *http.Response { return serve(ginEngine, req) }
	}
`)
		mw.WriteString(mwBlock("gin", "*gin.Context"))
	}
	if has["echo"] {
		imp.WriteString("\t\"github.com/labstack/echo/v4\"\n")
		setup.WriteString(`	register("echo", func() { recho.RegisterRoutes(echo.New()) })
	echoEngine := echo.New()
	echoEngine.HideBanner = true
	if register("echo", func() { recho.RegisterRoutes(echoEngine) }) {
		servers["echo"] = func(req *http.Request) *http.Response { return serve(echoEngine, req) }
	}
`)
		mw.WriteString(mwBlock("echo", "echo.Context"))
	}
	if has["mux"] {
		imp.WriteString("\t\"github.com/gorilla/mux\"\n")
		setup.WriteString(`	register("mux", func() { rmux.RegisterRoutes(mux.NewRouter()) })
	muxEngine := mux.NewRouter()
	if register("mux", func() { rmux.RegisterRoutes(muxEngine) }) {
		servers["mux"] = func(req *http.Request) *http.Response { return serve(muxEngine, req) }
	}
`)
		mw.WriteString(mwBlock("mux", "*http.Request"))
	}
	if has["chi"] {
		imp.WriteString("\t\"github.com/go-chi/chi/v5\"\n")
		setup.WriteString(`	register("chi", func() { rchi.RegisterRoutes(chi.NewRouter()) })
	chiEngine := chi.NewRouter()
	if register("chi", func() { rchi.RegisterRoutes(chiEngine) }) {
		servers["chi"] = func(req *http.Request) *http.Response { return serve(chiEngine, req) }
	}
`)
		mw.WriteString(mwBlock("chi", "*http.Request"))
	}
	if has["fiber"] {
		imp.WriteString("\t\"github.com/gofiber/fiber/v2\"\n")
		setup.WriteString(`	register("fiber", func() { rfiber.RegisterRoutes(fiber.New(fiber.Config{UnescapePath: true, DisableStartupMessage: true})) })
	fiberEngine := fiber.New(fiber.Config{UnescapePath: true, DisableStartupMessage: true})
	if register("fiber", func() { rfiber.RegisterRoutes(fiberEngine) }) {
		servers["fiber"] = func(req *http.Request) *http.Response {
			resp, err := fiberEngine.Test(req, -1)
			if err != nil {
				vprobe.Log(vprobe.Event{Ev: "transport-error", Eng: "fiber", Rid: req.Header.Get("X-Verif-Rid"), Detail: err.Error()})
				return nil
			}
			return resp
		}
	}
`)
		mw.WriteString(mwBlock("fiber", "*fiber.Ctx"))
	}
	resolve := `	vprobe.Resolve = func(engineCtx any) (string, string, string, string) {
		h := func(get func(string) string) (string, string, string, string) {
			return get("X-Verif-Eng"), get("X-Verif-Rid"), get("X-Verif-Behave"), get("X-Verif-Policy")
		}
		switch c := engineCtx.(type) {
		case *http.Request:
			return h(c.Header.Get)
`
	if has["gin"] {
		resolve += "\t\tcase *gin.Context:\n\t\t\treturn h(c.Request.Header.Get)\n"
	}
	if has["echo"] {
		resolve += "\t\tcase echo.Context:\n\t\t\treturn h(c.Request().Header.Get)\n"
	}
	if has["fiber"] {
		resolve += "\t\tcase *fiber.Ctx:\n\t\t\treturn h(func(k string) string { return c.Get(k) })\n"
	}
	resolve += "\t\t}\n\t\treturn \"?\", \"?\", \"\", \"\"\n\t}\n"

	return `package main

import (
	"bytes"
	"context"
	"encoding/json"
	"fmt"
	"io"
	"net/http"
	"net/http/httptest"
	"os"
	"strings"
	"sync"

	"github.com/gopher-fleece/runtime"
	"` + modPath + `/vprobe"
` + imp.String() + `)

type Request struct {
	Rid     string            ` + "`json:\"rid\"`" + `
	Verb    string            ` + "`json:\"verb\"`" + `
	Target  string            ` + "`json:\"target\"`" + `
	Headers map[string]string ` + "`json:\"headers\"`" + `
	HeaderList [][2]string    ` + "`json:\"header_list\"`" + `
	Body    *string           ` + "`json:\"body\"`" + `
	CType   string            ` + "`json:\"ctype\"`" + `
}

type Workload struct {
	Requests   []Request ` + "`json:\"requests\"`" + `
	Goroutines int       ` + "`json:\"goroutines\"`" + `
}

type logBody struct {
	r        io.Reader
	eng, rid string
	once     sync.Once
	n        int
}

func (b *logBody) Read(p []byte) (int, error) {
	n, err := b.r.Read(p)
	b.n += n
	if n > 0 || err == io.EOF {
		b.once.Do(func() { vprobe.Log(vprobe.Event{Ev: "body_read", Eng: b.eng, Rid: b.rid}) })
	}
	return n, err
}
func (b *logBody) Close() error { return nil }

func serve(h http.Handler, req *http.Request) *http.Response {
	rec := httptest.NewRecorder()
	h.ServeHTTP(rec, req)
	return rec.Result()
}

func register(eng string, f func()) (ok bool) {
	defer func() {
		if r := recover(); r != nil {
			vprobe.Log(vprobe.Event{Ev: "register_panic", Eng: eng, Detail: fmt.Sprint(r)})
			ok = false
		}
	}()
	f()
	vprobe.Log(vprobe.Event{Ev: "registered", Eng: eng})
	return true
}

var _ = context.Background
var _ = runtime.StatusOK

func main() {
	if len(os.Args) < 3 {
		fmt.Println("usage: probe workload.json trace.jsonl")
		os.Exit(2)
	}
	raw, err := os.ReadFile(os.Args[1])
	if err != nil {
		panic(err)
	}
	var wl Workload
	if err := json.Unmarshal(raw, &wl); err != nil {
		panic(err)
	}
	if err := vprobe.Open(os.Args[2]); err != nil {
		panic(err)
	}
	defer vprobe.Close()
` + resolve + `
	servers := map[string]func(*http.Request) *http.Response{}
` + mw.String() + setup.String() + `
	engines := []string{}
	for _, e := range []string{"gin", "echo", "mux", "chi", "fiber"} {
		if servers[e] != nil {
			engines = append(engines, e)
		}
	}
	do := func(rq Request, eng, ridSuffix string) {
		rid := rq.Rid + "@" + eng + ridSuffix
		var body io.Reader
		if rq.Body != nil {
			body = bytes.NewReader([]byte(*rq.Body))
		}
		req, err := http.NewRequest(rq.Verb, "http://lab.local"+rq.Target, nil)
		if err != nil {
			vprobe.Log(vprobe.Event{Ev: "bad-request", Eng: eng, Rid: rid, Detail: err.Error()})
			return
		}
		if body == nil {
			req.Body = http.NoBody // what a server-side request always carries
		}
		if body != nil {
			if eng == "fiber" {
				req.Body = io.NopCloser(body)
			} else {
				req.Body = &logBody{r: body, eng: eng, rid: rid}
			}
			req.ContentLength = int64(len(*rq.Body))
		}
		for k, v := range rq.Headers {
			req.Header.Set(k, v)
		}
		for _, kv := range rq.HeaderList {
			req.Header.Add(kv[0], kv[1])
		}
		if rq.CType != "" {
			req.Header.Set("Content-Type", rq.CType)
		}
		req.Header.Set("X-Verif-Rid", rid)
		req.Header.Set("X-Verif-Eng", eng)
		if req.Header.Get("X-Verif-Cancel") != "" {
			// the client has already gone away when the handler starts: the request context is done
			cctx, cancel := context.WithCancel(req.Context())
			cancel()
			req = req.WithContext(cctx)
		}
		vprobe.Log(vprobe.Event{Ev: "req", Eng: eng, Rid: rid, Detail: rq.Verb + " " + rq.Target})
		var resp *http.Response
		func() {
			defer func() {
				if r := recover(); r != nil {
					vprobe.Log(vprobe.Event{Ev: "handler_panic", Eng: eng, Rid: rid, Detail: fmt.Sprint(r)})
				}
			}()
			resp = servers[eng](req)
		}()
		if resp == nil {
			return
		}
		b, _ := io.ReadAll(resp.Body)
		resp.Body.Close()
		hdr := map[string]string{}
		for k, v := range resp.Header {
			if strings.HasPrefix(k, "X-") {
				hdr[k] = strings.Join(v, ",")
			}
		}
		vprobe.Log(vprobe.Event{Ev: "resp", Eng: eng, Rid: rid, Status: resp.StatusCode, CType: resp.Header.Get("Content-Type"), Body: string(b), Hdr: hdr})
	}
	for _, rq := range wl.Requests {
		for _, eng := range engines {
			do(rq, eng, "")
		}
	}
	if wl.Goroutines > 1 {
		var wg sync.WaitGroup
		for g := 0; g < wl.Goroutines; g++ {
			wg.Add(1)
			go func(g int) {
				defer wg.Done()
				for i := range wl.Requests {
					rq := wl.Requests[(i+g*7)%len(wl.Requests)]
					for _, eng := range engines {
						do(rq, eng, fmt.Sprintf("#g%d", g))
					}
				}
			}(g)
		}
		wg.Wait()
	}
	vprobe.Log(vprobe.Event{Ev: "done"})
}
`
}

func mwBlock(eng, ctxType string) string {
	params := "ec " + ctxType
	if eng == "mux" || eng == "chi" {
		params = "_ http.ResponseWriter, ec *http.Request"
	}
	return fmt.Sprintf(`	{
		mk := func(kind string) func(ctx context.Context, %[2]s) (context.Context, bool) {
			return func(ctx context.Context, %[2]s) (context.Context, bool) {
				e, rid, _, _ := vprobe.Resolve(ec)
				vprobe.Log(vprobe.Event{Ev: "mw", Eng: e, Rid: rid, Kind: kind})
				return vprobe.WithToken(ctx, rid), true
			}
		}
		mkErr := func(kind string) func(ctx context.Context, %[2]s, err error) (context.Context, bool) {
			return func(ctx context.Context, %[2]s, err error) (context.Context, bool) {
				e, rid, _, _ := vprobe.Resolve(ec)
				vprobe.Log(vprobe.Event{Ev: "mw", Eng: e, Rid: rid, Kind: kind})
				return ctx, true
			}
		}
		r%[1]s.RegisterMiddleware(runtime.BeforeOperation, mk("before_operation"))
		r%[1]s.RegisterMiddleware(runtime.AfterOperationSuccess, mk("after_success"))
		r%[1]s.RegisterErrorMiddleware(runtime.OnOperationError, mkErr("on_error"))
		r%[1]s.RegisterErrorMiddleware(runtime.OnInputValidationError, mkErr("input_validation"))
		r%[1]s.RegisterErrorMiddleware(runtime.OnOutputValidationError, mkErr("output_validation"))
	}
`, eng, params)
}
