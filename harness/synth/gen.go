package synth

import (
	"fmt"
	"math/rand"
	"strings"
)

// Profile selects which descriptor features a lab switches on (DESIGN §2.1 feature profiles).
type Profile struct {
	Name                    string
	MaxControllers          int
	MaxMethods              int
	MultiPkg                bool
	MultiFile               bool
	Hidden                  bool
	Deprecated              bool
	NonEndpoint             bool // methods without @Method / with empty route, methods of unrelated types
	Security                bool
	DefaultSecP             float64
	ParamIn                 []string
	ParamTypeLevel          int  // 0 strings, 1 all primitives, 2 + enums/aliases/pointers/query slices
	Validators              bool // validators on parameters
	FieldValidators         bool
	Models                  int // 0 none, 1 simple, 2 rich
	CustomErrors            bool
	Responses               bool
	RouteStyle              string // clean | slashy
	CtlRouteParams          bool
	VerbPathReuse           bool
	SameNameCtls            bool
	Maps                    bool
	UsageValidators         bool // validators on $ref-typed fields/params
	HiddenJSON              bool // json:"-" and unexported fields
	Descriptions            bool
	WireNames               bool
	ValueReceivers          bool
	CtxParams               bool
	EnforceP                float64
	AnyBytesTime            bool // any / []byte / time.Time in fields and results
	NestedSlices            bool
	MutualRecursion         bool
	AllRules                bool // draw validators from every rule either converter understands (C11)
	BareControllers         bool // controllers without @Route / @Tag / any doc comment at all
	RuntimeValidators       bool // only validators whose run-time semantics the router labs model
	HostileNames            bool // parameter names that stress identifier concatenation in the templates (C09)
	CompileHostile          bool // value shapes the acceptance survey found to break compilation (C09 only)
	TemplateTwins           bool // same path shape under another verb with differently named {variables} (spec profiles only)
	SameNameTypes           bool // an enum twin with the same type name in another package, used under the same parameter name
	LookalikeTypes          bool // user types named like the types gleece special-cases (context.Context, time.Time) in packages named alike
	GroupedControllers      bool // controllers declared inside a documented `type ( ... )` block
	ControllerFields        bool // package-qualified fields in front of the embedded GleeceController
	NestedBetween           bool // a globbed nested package whose directory sorts between two files of one controller
	ErrorEmbeds             bool // custom error models that embed another struct and list `error` last
	SameWireAcrossLocations bool // a query/header parameter reusing a path parameter's wire name
	LowerVerbs              bool // now and then a verb in lower case (unsupported: the project has to be rejected)
	CrossCtlSameRoute       bool // two controllers with different prefixes declare the same verb + method-level route
	GroupedParams           bool // some signatures group consecutive same-typed parameters (a, b, c string)
	ErrCodeIsSuccess        bool // an @ErrorResponse whose code equals the route's @Response code (accepted by the validator)
	RepeatedErrCodes        bool // a repeated @ErrorResponse code (a warning) in front of further codes
	DashedWireNames         bool // wire names with '-' and '_' for path/query parameters
	OAuthSchemes            bool // oauth2 (1-4 flows, differing scopes) and openIdConnect schemes in the configuration
}

var verbs = []string{"GET", "POST", "PUT", "DELETE", "PATCH"}
var bodyVerbs = []string{"POST", "PUT", "PATCH"}
var methodVerbsWords = []string{"Get", "List", "Create", "Update", "Delete", "Find", "Search", "Patch", "Put", "Fetch", "Count", "Sync"}
var nouns = []string{"User", "Order", "Item", "Address", "Profile", "Label", "Invoice", "Cart", "Team", "Device", "Report", "Token"}
var ctlNames = []string{"UsersCtl", "OrdersCtl", "ItemsCtl", "AdminCtl", "ReportsCtl", "TeamsCtl"}
var intPrims = []string{"int", "int8", "int16", "int32", "int64", "uint", "uint8", "uint16", "uint32", "uint64"}
var allPrims = append(append([]string{"string", "bool", "float32", "float64"}, intPrims...), "string", "string")
var descrPool = []string{"Returns the thing", "Creates a new entry", "The identifier", "Übergröße: ünïcödé text", "説明 in Japanese", "With (parentheses) and {braces}", "Multi word description, with commas", "Ends with colon:"}

type gen struct {
	hostileKind  string // the single compile-hostile shape this project may carry ("" none)
	hostileUsed  bool
	hostileNames bool
	curPkg       string // package of the controller being generated
	lookalike    string // pkg key of the lookalike package ("" none)
	r            *rand.Rand
	prof         Profile
	p            *Project
	used         map[string]bool
}

func (g *gen) chance(p float64) bool   { return g.r.Float64() < p }
func (g *gen) pick(xs []string) string { return xs[g.r.Intn(len(xs))] }

func (g *gen) fresh(base string) string {
	if !g.used[base] {
		g.used[base] = true
		return base
	}
	for i := 2; ; i++ {
		n := fmt.Sprintf("%s%d", base, i)
		if !g.used[n] {
			g.used[n] = true
			return n
		}
	}
}

func (g *gen) descr() string {
	if !g.prof.Descriptions || g.chance(0.5) {
		return ""
	}
	return g.pick(descrPool)
}

// Gen draws a project from the PRNG.
func Gen(r *rand.Rand, prof Profile, name, modRoot string) *Project {
	g := &gen{r: r, prof: prof, used: map[string]bool{}}
	p := &Project{Name: name, ModPath: modRoot + "/" + name}
	g.p = p
	p.Pkgs = []Pkg{{Key: "ctl", Dir: "ctl", Name: "ctl"}}
	if prof.MultiPkg {
		p.Pkgs = append(p.Pkgs, Pkg{Key: "models", Dir: "models", Name: "models"})
		if g.chance(0.6) {
			p.Pkgs = append(p.Pkgs, Pkg{Key: "shared", Dir: "internal/shared", Name: "shared"})
		}
		if g.chance(0.5) || prof.SameNameCtls {
			p.Pkgs = append(p.Pkgs, Pkg{Key: "ctl2", Dir: "api/ctl2", Name: "ctl2"})
		}
	}
	if prof.HostileNames && g.chance(0.35) {
		g.hostileNames = true
		p.SetFeature("hostile-parameter-names")
	}
	if prof.CompileHostile && g.chance(0.45) {
		g.hostileKind = g.pick([]string{"map-body", "map-result", "time-result", "ptr-slice-body", "ptr-slice-result"})
	}
	if prof.LookalikeTypes && prof.Models > 0 && g.chance(0.3) {
		if g.chance(0.6) {
			g.lookalike = "hctx"
			p.Pkgs = append(p.Pkgs, Pkg{Key: "hctx", Dir: "pkg/context", Name: "context"})
			g.prof.CtxParams = false // the user's files cannot import both packages named context
			p.SetFeature("user-type-context.Context")
		} else {
			g.lookalike = "htime"
			p.Pkgs = append(p.Pkgs, Pkg{Key: "htime", Dir: "pkg/time", Name: "time"})
			g.prof.AnyBytesTime = false
			p.SetFeature("user-type-time.Time")
		}
	}
	g.genConfig()
	g.genTypes()
	g.genControllers()
	g.postControllers()
	return p
}

// postControllers plants the shapes that need two cooperating sites.
func (g *gen) postControllers() {
	p := g.p
	if g.prof.CrossCtlSameRoute && len(p.Controllers) >= 2 && g.chance(0.4) {
		// the same verb and method-level @Route under two different controller prefixes
		a := &p.Controllers[0]
		for bi := 1; bi < len(p.Controllers); bi++ {
			b := &p.Controllers[bi]
			// (a parameterised prefix would overlap the other controller's literal one: two different, non-overlapping prefixes only)
			if strings.Trim(a.Route, "/") == strings.Trim(b.Route, "/") || strings.Contains(a.Route+b.Route, "{") || a.NoRouteAnn || b.NoRouteAnn || len(a.Methods) == 0 || len(b.Methods) == 0 {
				continue
			}
			src := a.Methods[0]
			dst := &b.Methods[0]
			if !src.IsEndpoint() || !dst.IsEndpoint() || hasBodyOrForm(dst.Params) || hasBodyOrForm(src.Params) {
				continue
			}
			var keep, pp []Param
			names := map[string]bool{}
			for _, pr := range dst.Params {
				if pr.In != "path" || pr.GoName == "tenant" {
					keep = append(keep, pr)
					names[pr.GoName] = true
				}
			}
			ok := true
			for _, pr := range src.Params {
				if pr.In == "path" && pr.GoName != "tenant" {
					if names[pr.GoName] {
						ok = false
					}
					pp = append(pp, pr)
				}
			}
			if ok {
				dst.Verb, dst.Route = src.Verb, src.Route
				dst.Params = append(pp, keep...)
				p.SetFeature("same-method-route-under-two-prefixes")
			}
			break
		}
	}
	if g.prof.NestedBetween && g.chance(0.35) {
		for ci := range p.Controllers {
			c := &p.Controllers[ci]
			if c.Pkg != "ctl" || len(c.Files) < 2 || p.Pkg("nest") != nil {
				continue
			}
			// "<file0 without .go>x/" sorts after file 0 and before file 1 of this controller
			dir := "ctl/" + strings.TrimSuffix(c.Files[0], ".go") + "x"
			p.Pkgs = append(p.Pkgs, Pkg{Key: "nest", Dir: dir, Name: "nested"})
			p.Config.Globs = append(p.Config.Globs, "./"+dir+"/*.go")
			cn := g.fresh("NestedCtl")
			nc := Controller{Name: cn, Pkg: "nest", Files: []string{"nested_ctl.go"}, Route: "/nested", Tag: "Nested"}
			t := Prim("string")
			nc.Methods = append(nc.Methods, Method{Name: g.fresh("ReadNested"), Verb: "GET", Route: "/read", Ret: &t})
			p.Controllers = append(p.Controllers, nc)
			p.SetFeature("nested-package-between-controller-files")
			break
		}
	}
	type site struct{ ci, mi int }
	var eps []site
	for ci := range p.Controllers {
		for mi := range p.Controllers[ci].Methods {
			if p.Controllers[ci].Methods[mi].IsEndpoint() {
				eps = append(eps, site{ci, mi})
			}
		}
	}
	hasParam := func(m *Method, name string) bool {
		for _, pr := range m.Params {
			if pr.GoName == name {
				return true
			}
		}
		return false
	}
	// endpoints whose controller package may import pkg (first / last such endpoint, distinct)
	seeing := func(pkgA, pkgB string) (a, b site, ok bool) {
		ai, bi := -1, -1
		for i, e := range eps {
			if visible(p.Controllers[e.ci].Pkg, pkgA) {
				ai = i
				break
			}
		}
		for i := len(eps) - 1; i >= 0; i-- {
			if i != ai && visible(p.Controllers[eps[i].ci].Pkg, pkgB) {
				bi = i
				break
			}
		}
		if ai < 0 || bi < 0 {
			return site{}, site{}, false
		}
		return eps[ai], eps[bi], true
	}
	otherPkg := func(not string) string {
		best := ""
		for _, pk := range p.Pkgs {
			if pk.Key == not || pk.Key == "hctx" || pk.Key == "htime" {
				continue
			}
			if best == "" || (pk.Key != "ctl" && pk.Key != "ctl2") {
				best = pk.Key
			}
		}
		return best
	}
	if g.lookalike != "" {
		name := map[string]string{"hctx": "Context", "htime": "Time"}[g.lookalike]
		for _, s := range eps {
			m := &p.Controllers[s.ci].Methods[s.mi]
			done := false
			for pi := range m.Params {
				if m.Params[pi].In == "body" {
					m.Params[pi].Type = Named(g.lookalike, name)
					m.Params[pi].Validate = ""
					done = true
				}
			}
			if !done && !hasBodyOrForm(m.Params) && !hasParam(m, "payload") {
				for _, v := range bodyVerbs {
					if m.Verb == v {
						m.Params = append(m.Params, Param{GoName: "payload", In: "body", Type: Named(g.lookalike, name)})
						done = true
					}
				}
			}
			if done {
				break
			}
		}
	}
	if g.prof.SameNameTypes && g.prof.Models > 0 && g.chance(0.6) {
		// versioned sibling packages (no imports between them, all matched by the globs, so the loader
		// parses them concurrently), each with its own controller and its own struct of one shared name
		name := g.fresh("Account")
		for i, k := range []string{"alt1", "alt2", "alt3"} {
			dir := fmt.Sprintf("api/v%d", i+1)
			p.Pkgs = append(p.Pkgs, Pkg{Key: k, Dir: dir, Name: fmt.Sprintf("v%d", i+1)})
			p.Config.Globs = append(p.Config.Globs, "./"+dir+"/*.go")
			p.Structs = append(p.Structs, Struct{Name: name, Pkg: k, Fields: []Field{{GoName: fmt.Sprintf("OnlyInV%d", i+1), Type: Prim("string"), JSONName: fmt.Sprintf("onlyInV%d", i+1)}, {GoName: "Rev", Type: Prim([]string{"int", "int64", "string"}[i]), JSONName: "rev"}}})
			t := Named(k, name)
			cn := g.fresh("AccountsCtl")
			c := Controller{Name: cn, Pkg: k, Files: []string{fmt.Sprintf("%s_%s_0.go", strings.ToLower(cn), k)}, Route: fmt.Sprintf("/v%d/accounts", i+1), Tag: fmt.Sprintf("Accounts v%d", i+1)}
			c.Methods = append(c.Methods, Method{Name: g.fresh("ReadAccount"), Verb: "GET", Route: "/read", Ret: &t})
			p.Controllers = append(p.Controllers, c)
		}
		p.SetFeature("same-struct-name-in-sibling-controller-packages")
	}
	if g.prof.SameNameTypes && g.prof.Models > 0 && len(eps) >= 2 {
		// a struct twin: same type name, another package, other fields; both used as results
		var src *Struct
		for i := range p.Structs {
			st := &p.Structs[i]
			if !st.IsError && st.Name[0] >= 'A' && st.Name[0] <= 'Z' && st.Pkg != "hctx" && st.Pkg != "htime" {
				src = st
				break
			}
		}
		other := ""
		if src != nil {
			other = otherPkg(src.Pkg)
		}
		if other != "" && g.chance(0.6) {
			srcT, twinT := Named(src.Pkg, src.Name), Named(other, src.Name)
			p.Structs = append(p.Structs, Struct{Name: src.Name, Pkg: other, Fields: []Field{{GoName: "TwinOnly", Type: Prim("string"), JSONName: "twinOnly"}, {GoName: "TwinCount", Type: Prim("int64"), JSONName: "twinCount"}}})
			if a, b, ok := seeing(src.Pkg, other); ok {
				p.Controllers[a.ci].Methods[a.mi].Ret = &srcT
				p.Controllers[b.ci].Methods[b.mi].Ret = &twinT
				p.SetFeature("same-struct-name-two-packages")
			} else {
				p.Structs = p.Structs[:len(p.Structs)-1]
			}
		}
	}
	if g.prof.SameNameTypes && len(p.Enums) > 0 && len(eps) >= 2 {
		src := p.Enums[0]
		other := otherPkg(src.Pkg)
		if other != "" && g.chance(0.3) {
			// an ALIAS of the enum's name in the other package, used by an earlier route than the enum itself
			if a, b, ok := seeing(other, src.Pkg); ok {
				ma, mb := &p.Controllers[a.ci].Methods[a.mi], &p.Controllers[b.ci].Methods[b.mi]
				if !hasParam(ma, "lvl") && !hasParam(mb, "lvl") {
					p.Aliases = append(p.Aliases, Alias{Name: src.Name, Pkg: other, Base: src.Base})
					ma.Params = append(ma.Params, Param{GoName: "lvl", In: "query", Type: Named(other, src.Name)})
					mb.Params = append(mb.Params, Param{GoName: "lvl", In: "query", Type: Named(src.Pkg, src.Name)})
					p.SetFeature("alias-and-enum-share-a-name-across-packages")
				}
			}
		} else if other != "" && g.chance(0.5) {
			twin := src
			twin.Pkg = other
			twin.Decoys = nil
			twin.Values = append([]EnumConst{}, src.Values...)
			p.Enums = append(p.Enums, twin)
			a, b, ok := seeing(src.Pkg, other)
			if !ok {
				a, b = eps[0], eps[0]
			}
			ma, mb := &p.Controllers[a.ci].Methods[a.mi], &p.Controllers[b.ci].Methods[b.mi]
			if !ok {
				p.Enums = p.Enums[:len(p.Enums)-1]
			} else if !hasParam(ma, "kind") && !hasParam(mb, "kind") {
				ma.Params = append(ma.Params, Param{GoName: "kind", In: "query", Type: Named(src.Pkg, src.Name)})
				mb.Params = append(mb.Params, Param{GoName: "kind", In: "query", Type: Named(other, src.Name)})
				p.SetFeature("same-type-name-two-packages-same-parameter-name")
			}
		}
	}
}

var pkgRank = map[string]int{"nest": -1, "alt1": -2, "alt2": -3, "alt3": -4, "hctx": -1, "htime": -1, "shared": 0, "models": 1, "ctl2": 2, "ctl": 3}

// visible: package `from` may import package `of` (the generator keeps the package graph acyclic).
func visible(from, of string) bool { return pkgRank[of] <= pkgRank[from] }

// Visible is the exported form: may package `from` import package `of` without creating a cycle?
func Visible(from, of string) bool { return visible(from, of) }

func (g *gen) enumsFor(from string) []Enum {
	var out []Enum
	for _, e := range g.p.Enums {
		if visible(from, e.Pkg) {
			out = append(out, e)
		}
	}
	return out
}

func (g *gen) aliasesFor(from string) []Alias {
	var out []Alias
	for _, a := range g.p.Aliases {
		if visible(from, a.Pkg) {
			out = append(out, a)
		}
	}
	return out
}

// structsFor lists non-error structs visible from a package; limit>=0 restricts to indices < limit.
func (g *gen) structsFor(from string, limit int) []Struct {
	var out []Struct
	for i, st := range g.p.Structs {
		if limit >= 0 && i >= limit {
			break
		}
		if visible(from, st.Pkg) && !st.IsError && (st.Pkg == from || st.Name[0] < 'a' || st.Name[0] > 'z') {
			out = append(out, st)
		}
	}
	return out
}

func (g *gen) typePkgs() []string {
	var ks []string
	for _, pk := range g.p.Pkgs {
		if strings.HasPrefix(pk.Key, "alt") {
			continue // sibling leaf packages hold only the planted same-name declarations
		}
		ks = append(ks, pk.Key)
	}
	return ks
}

func (g *gen) ctlPkgs() []string {
	ks := []string{"ctl"}
	if g.p.Pkg("ctl2") != nil {
		ks = append(ks, "ctl2")
	}
	return ks
}

func (g *gen) genConfig() {
	c := &g.p.Config
	c.Engine = "gin"
	c.OpenAPI = "3.0.0"
	c.Globs = nil
	for _, k := range g.ctlPkgs() {
		c.Globs = append(c.Globs, "./"+g.p.Pkg(k).Dir+"/*.go")
	}
	c.RoutesOut = "./dist/routes/gleece.routes.go"
	c.SpecOut = "./dist/openapi.json"
	c.AuthPkg = g.p.ModPath + "/auth/gin"
	c.SkipDate = true
	c.Title = "Lab API " + g.p.Name
	c.Version = "1.2.3"
	c.BaseURL = "https://api.example.com/v1"
	if g.chance(0.5) {
		c.InfoDescr = "Generated project " + g.p.Name
	}
	if g.chance(0.4) {
		c.ContactName, c.ContactEmail, c.ContactURL = "Support", "support@example.com", "https://example.com/support"
		switch g.r.Intn(4) { // name and url are optional on their own (gleece's own rule requires a well-formed e-mail)
		case 0:
			c.ContactName = ""
		case 1:
			c.ContactName, c.ContactURL = "", ""
		case 2:
			c.ContactURL = ""
		}
	}
	if g.chance(0.3) {
		c.LicenseName, c.LicenseURL = "MIT", "https://opensource.org/licenses/MIT"
	}
	c.Schemes = []SecScheme{
		{Name: "apiKeyAuth", Type: "apiKey", In: "header", FieldName: "X-Api-Key", Description: "API key"},
		{Name: "bearerAuth", Type: "http", Scheme: "bearer", Description: "Bearer token"},
		{Name: "queryKey", Type: "apiKey", In: "query", FieldName: "key", Description: "Key in query"},
	}
	if g.prof.OAuthSchemes && g.chance(0.6) {
		flowNames := []string{"implicit", "password", "clientCredentials", "authorizationCode"}
		g.r.Shuffle(len(flowNames), func(i, j int) { flowNames[i], flowNames[j] = flowNames[j], flowNames[i] })
		sc := SecScheme{Name: "oauthScheme", Type: "oauth2", Description: "OAuth 2", Flows: map[string]*OAuthFlow{}}
		for _, fn := range flowNames[:1+g.r.Intn(4)] {
			f := &OAuthFlow{Scopes: map[string]string{}}
			if fn == "implicit" || fn == "authorizationCode" {
				f.AuthorizationURL = "https://auth.example.com/" + fn + "/authorize"
			}
			if fn != "implicit" {
				f.TokenURL = "https://auth.example.com/" + fn + "/token"
			}
			if g.chance(0.4) {
				f.RefreshURL = "https://auth.example.com/" + fn + "/refresh"
			}
			for _, s := range scopePool {
				if g.chance(0.5) {
					f.Scopes[s] = "Grants " + s + " via " + fn
				}
			}
			sc.Flows[fn] = f
		}
		c.Schemes = append(c.Schemes, sc)
		g.p.SetFeature("oauth2-scheme")
	}
	if g.prof.OAuthSchemes && g.chance(0.4) {
		c.Schemes = append(c.Schemes, SecScheme{Name: "oidcScheme", Type: "openIdConnect", Description: "OIDC", OpenIDConnectURL: "https://id.example.com/.well-known/openid-configuration"})
		g.p.SetFeature("openidconnect-scheme")
	}
	if g.prof.Security && g.chance(g.prof.DefaultSecP) {
		s := g.genSecurityOne()
		if s.Scopes == nil {
			s.Scopes = []string{}
		}
		c.DefaultSecurity = &s
	}
	if g.prof.Security && g.chance(g.prof.EnforceP) {
		c.Enforce = true
	}
}

var scopePool = []string{"read", "write", "admin", "read:users", "x", "orders:read&write", "a<b>", "it's"}

func (g *gen) genSecurityOne() Security {
	names := []string{"apiKeyAuth", "bearerAuth", "queryKey"}
	for _, sc := range g.p.Config.Schemes[minI(3, len(g.p.Config.Schemes)):] {
		names = append(names, sc.Name)
	}
	s := Security{Scheme: g.pick(names)}
	n := g.r.Intn(4)
	if n > 0 || g.chance(0.5) {
		s.Scopes = []string{}
		for i := 0; i < n; i++ {
			s.Scopes = append(s.Scopes, g.pick(scopePool))
		}
	}
	// free text after the annotation, sometimes with the "})" that once confused the splitter
	if g.chance(0.15) {
		s.Descr = g.pick([]string{"Admins only (see {policy})", "needs a token", "callers listed in ({acl})", "see RFC 6750"})
	}
	return s
}

func (g *gen) genSecurityList() []Security {
	n := 1 + g.r.Intn(3)
	var out []Security
	for i := 0; i < n; i++ {
		out = append(out, g.genSecurityOne())
	}
	return out
}

// ---- types ----

func enumLits(base string, n int, r *rand.Rand) []EnumConst {
	var out []EnumConst
	for i := 0; i < n; i++ {
		switch {
		case base == "string":
			pool := []string{"red", "green", "blue", "dark-grey", "a b", "ALPHA", "x_y", "1st", "R&D", "a<b>c", "it's"}
			v := pool[(i+r.Intn(4))%len(pool)]
			dup := false
			for _, o := range out {
				if o.Text == v {
					dup = true
				}
			}
			if dup {
				v = fmt.Sprintf("%s%d", v, i)
			}
			out = append(out, EnumConst{Lit: fmt.Sprintf("%q", v), Text: v})
		case base == "bool":
			if i > 1 {
				return out
			}
			v := []string{"true", "false"}[i]
			out = append(out, EnumConst{Lit: v, Text: v})
		case strings.HasPrefix(base, "float"):
			v := []string{"0.5", "1.25", "2.75", "10"}[i%4]
			if i >= 4 {
				v = fmt.Sprintf("%d.5", i)
			}
			out = append(out, EnumConst{Lit: v, Text: v})
		case strings.HasPrefix(base, "uint"):
			v := fmt.Sprint(i * 3)
			if i == n-1 && n > 2 {
				// the last constant sits at the top of the width (beyond int64 for the 64-bit kinds)
				v = map[string]string{"uint8": "255", "uint16": "65535", "uint32": "4294967295", "uint64": "18446744073709551615", "uint": "9223372036854775808"}[base]
			}
			out = append(out, EnumConst{Lit: v, Text: v})
		default:
			v := fmt.Sprint(i*7 - 7)
			if i == n-1 && n > 2 {
				v = map[string]string{"int8": "127", "int16": "32767", "int32": "2147483647", "int64": "9223372036854775807", "int": "9223372036854775807"}[base]
			} else if i == 0 && n > 3 {
				v = map[string]string{"int8": "-128", "int16": "-32768", "int32": "-2147483648", "int64": "-9223372036854775808", "int": "-9223372036854775808"}[base]
			}
			out = append(out, EnumConst{Lit: v, Text: v})
		}
	}
	return out
}

func (g *gen) genTypes() {
	prof := g.prof
	if prof.Models == 0 && prof.ParamTypeLevel < 2 {
		return
	}
	p := g.p
	pks := g.typePkgs()
	nEnums, nAliases := 1+g.r.Intn(3), 1+g.r.Intn(2)
	if prof.ParamTypeLevel < 2 && prof.Models < 2 {
		nEnums, nAliases = g.r.Intn(2), g.r.Intn(2)
	}
	enumBases := []string{"string", "string", "int", "int8", "uint16", "int64", "float64", "bool", "uint64", "uint"}
	for i := 0; i < nEnums; i++ {
		base := enumBases[g.r.Intn(len(enumBases))]
		name := g.fresh(g.pick([]string{"Color", "Status", "Level", "Mode", "Kind"}))
		e := Enum{Name: name, Pkg: g.pick(pks), Base: base, Assigned: g.chance(0.25)}
		// `type X = int64` is int64 itself: two such enums over one base in one package would share their
		// constants by the rules of the language, so at most one per (package, base)
		for _, o := range p.Enums {
			if e.Assigned && o.Assigned && o.Pkg == e.Pkg && o.Base == e.Base {
				e.Assigned = false
			}
		}
		vals := enumLits(base, 2+g.r.Intn(3), g.r)
		for j := range vals {
			vals[j].Name = fmt.Sprintf("%s%s%d", name, "Val", j)
		}
		e.Values = vals
		if g.chance(0.4) && !e.Assigned {
			d := enumLits(base, 1, g.r)
			d[0].Name = name + "DecoyConst"
			if base == "string" {
				d[0].Lit, d[0].Text = `"decoy"`, "decoy"
			}
			e.Decoys = d
		}
		p.Enums = append(p.Enums, e)
	}
	// a decoy constant of base type T would, by the rules of the language, also be a constant of every
	// `type X = T` enum of its package: keep the two apart
	for i := range p.Enums {
		for _, o := range p.Enums {
			if o.Assigned && o.Pkg == p.Enums[i].Pkg && o.Base == p.Enums[i].Base {
				p.Enums[i].Decoys = nil
			}
		}
	}
	for i := 0; i < nAliases; i++ {
		name := g.fresh(g.pick([]string{"UserID", "Score", "Slug", "Amount", "Flag"}))
		p.Aliases = append(p.Aliases, Alias{Name: name, Pkg: g.pick(pks), Base: g.pick([]string{"string", "int", "int64", "uint32", "float64", "bool", "string"}), Assigned: g.chance(0.3)})
	}
	if prof.Models == 0 {
		return
	}
	nStructs := 2 + g.r.Intn(3)
	if prof.Models >= 2 {
		nStructs = 3 + g.r.Intn(5)
	}
	for i := 0; i < nStructs; i++ {
		s := Struct{Name: g.fresh(g.pick(nouns)), Pkg: g.pick(pks)}
		if prof.Descriptions && g.chance(0.4) {
			s.Descr = s.Name + " model. " + g.pick(descrPool)
		}
		p.Structs = append(p.Structs, s)
	}
	if g.lookalike != "" {
		name := map[string]string{"hctx": "Context", "htime": "Time"}[g.lookalike]
		g.used[name] = true
		p.Structs = append([]Struct{{Name: name, Pkg: g.lookalike, Fields: []Field{{GoName: "Tenant", Type: Prim("string"), JSONName: "tenant"}, {GoName: "Depth", Type: Prim("int"), JSONName: "depth"}}}}, p.Structs...)
	}
	if prof.Models >= 2 && g.chance(0.35) {
		// an unexported struct type (exported fields) that later structs of its package may embed
		hidden := Struct{Name: g.fresh(g.pick([]string{"auditInfo", "baseFields", "meta"})), Pkg: p.Structs[0].Pkg,
			Fields: []Field{{GoName: "CreatedBy", Type: Prim("string"), JSONName: "createdBy"}, {GoName: "Revision", Type: Prim("int"), JSONName: "revision", Validate: "gte=0"}}}
		p.Structs = append([]Struct{hidden}, p.Structs...)
		p.SetFeature("unexported-embedded-type")
	}
	for i := range p.Structs {
		s := &p.Structs[i]
		if len(s.Fields) > 0 {
			continue // pre-filled
		}
		nf := 1 + g.r.Intn(5)
		usedF := map[string]bool{}
		usedJ := map[string]bool{}
		if earlier := g.structsFor(s.Pkg, i); prof.Models >= 2 && len(earlier) > 0 && g.chance(0.3) {
			// embedded earlier struct (an unexported type can only be embedded inside its own package)
			e := earlier[g.r.Intn(len(earlier))]
			if e.Name[0] >= 'a' && e.Name[0] <= 'z' && e.Pkg != s.Pkg {
				e = earlier[len(earlier)-1]
			}
			if e.Name[0] >= 'a' && e.Name[0] <= 'z' && e.Pkg != s.Pkg {
				continue
			}
			ef := Field{Embedded: true, Type: Named(e.Pkg, e.Name)}
			if prof.FieldValidators && g.chance(0.4) {
				ef.Validate = "required" // on an embedding: still not a property of its own
			}
			s.Fields = append(s.Fields, ef)
			usedF[e.Name] = true
		}
		for f := 0; f < nf; f++ {
			fn := g.pick([]string{"ID", "Name", "Email", "Count", "Tags", "Owner", "Items", "Meta", "Created", "Active", "Ratio", "Parent", "Kind", "Note", "Data"})
			if usedF[fn] {
				continue
			}
			usedF[fn] = true
			fld := Field{GoName: fn, Type: g.fieldType(i)}
			switch g.r.Intn(4) {
			case 0:
			default:
				fld.JSONName = strings.ToLower(fn[:1]) + fn[1:]
				if g.chance(0.2) {
					fld.JSONName = strings.ToLower(fn) + "_x"
				}
			}
			if usedJ[fld.WireName()] {
				continue
			}
			usedJ[fld.WireName()] = true
			fld.OmitEmpty = fld.JSONName != "" && g.chance(0.25)
			if prof.FieldValidators && g.chance(0.5) {
				fld.Validate = g.fieldValidator(fld.Type)
			}
			if prof.Descriptions && g.chance(0.3) {
				fld.Descr = g.pick(descrPool)
			}
			s.Fields = append(s.Fields, fld)
		}
		if prof.Models >= 2 && g.chance(0.25) && !usedF["Lat"] && !usedF["Lng"] && !usedJ["Lat"] && !usedJ["Lng"] {
			// one declaration, several names: Lat, Lng float64 (no tags, so the wire names are the Go names)
			s.Fields = append(s.Fields, Field{GoName: "Lat", Type: Prim("float64"), GroupWithNext: true}, Field{GoName: "Lng", Type: Prim("float64")})
			g.p.SetFeature("multi-name-struct-field")
		}
		// hidden fields anywhere in the struct: in front of, between and behind the visible ones
		insertAt := func(f Field) {
			at := g.r.Intn(len(s.Fields) + 1)
			for at > 0 && s.Fields[at-1].GroupWithNext {
				at-- // never between the two names of one declaration (Lat, Lng float64)
			}
			s.Fields = append(s.Fields[:at], append([]Field{f}, s.Fields[at:]...)...)
		}
		if prof.HiddenJSON && g.chance(0.4) {
			insertAt(Field{GoName: "Secret", Type: Prim("string"), JSONName: "-"})
			g.p.SetFeature("json-dash-field")
		}
		if prof.HiddenJSON && g.chance(0.4) {
			insertAt(Field{GoName: "internalNote", Type: Prim("string")})
			g.p.SetFeature("unexported-field")
		}
	}
}

func (g *gen) fieldType(structIdx int) T {
	prof, p := g.prof, g.p
	from := p.Structs[structIdx].Pkg
	enums, aliases := g.enumsFor(from), g.aliasesFor(from)
	k := g.r.Intn(100)
	switch {
	case k < 40:
		return Prim(g.pick(allPrims))
	case k < 50 && len(enums) > 0:
		e := enums[g.r.Intn(len(enums))]
		return Named(e.Pkg, e.Name)
	case k < 57 && len(aliases) > 0:
		a := aliases[g.r.Intn(len(aliases))]
		return Named(a.Pkg, a.Name)
	case k < 75:
		// another struct: earlier index = acyclic; with Models>=2 also self/any (recursion via ptr/slice)
		var t Struct
		rec := false
		all, earlier := g.structsFor(from, -1), g.structsFor(from, structIdx)
		if prof.Models >= 2 && g.chance(0.3) && len(all) > 0 && !prof.MutualRecursion {
			t = p.Structs[structIdx] // self recursion (C07's quantifier); mutual recursion is C14's
			rec = true
		} else if prof.MutualRecursion && g.chance(0.4) && len(all) > 0 {
			t = all[g.r.Intn(len(all))]
			rec = true
		} else if len(earlier) > 0 {
			t = earlier[g.r.Intn(len(earlier))]
		} else {
			return Prim("string")
		}
		n := Named(t.Pkg, t.Name)
		switch g.r.Intn(3) {
		case 0:
			if rec {
				return Ptr(n)
			}
			return n
		case 1:
			return Ptr(n)
		default:
			return Slice(n)
		}
	case k < 85:
		return Slice(Prim(g.noByte(g.pick(allPrims))))
	case k < 89 && prof.Maps:
		return MapOf(Prim(g.pick([]string{"string", "int", "bool"})))
	case k < 92 && prof.AnyBytesTime:
		return T{K: "time"}
	case k < 95 && prof.AnyBytesTime:
		return T{K: "bytes"}
	case k < 97 && prof.AnyBytesTime:
		return T{K: "any"}
	case k < 99 && prof.NestedSlices:
		return Slice(Slice(Prim("string")))
	}
	return Ptr(Prim(g.pick(allPrims)))
}

// noByte: []uint8 IS []byte in Go (base64 in JSON); the type->schema table only speaks of []byte,
// so slices of uint8 are not generated.
func (g *gen) noByte(n string) string {
	if n == "uint8" {
		return "uint16"
	}
	return n
}

func isIntPrim(n string) bool   { return strings.HasPrefix(n, "int") || strings.HasPrefix(n, "uint") }
func isFloatPrim(n string) bool { return strings.HasPrefix(n, "float") }

var allRulePool = []string{"email", "uuid", "ip", "ipv4", "ipv6", "hostname", "date", "datetime", "gt=3", "gte=-2", "lt=99", "lte=100.5", "min=1", "max=64", "len=8",
	"pattern=^[a-z]+$", "pattern=^[a-z]+=[a-z0-9]+$", "oneof=env=prod env=dev", "minItems=1", "maxItems=9", "uniqueItems=true", "enum=a|b|c", "oneof=x y z", "oneof=1 2 3", "required", "gt=0.5", "min=0", "max=0", "lte=0", "gte=0", "lt=0", "gt=0", "len=0", "maxItems=0", "minItems=0"}

// richValidator draws 1-3 well-formed rules from the full catalogue, applicable to the type or not.
func (g *gen) richValidator() string {
	n := 1 + g.r.Intn(3)
	seen := map[string]bool{}
	var rules []string
	for i := 0; i < n; i++ {
		r := g.pick(allRulePool)
		name := strings.SplitN(r, "=", 2)[0]
		// one rule per bound: OpenAPI 3.0 has a single maximum/minimum slot, so "max=64,lt=99"
		// cannot be expressed there at all (input-language restriction, DESIGN §3 rule 5)
		group := map[string]string{"lt": "upper", "lte": "upper", "max": "upper", "len": "upper", "gt": "lower", "gte": "lower", "min": "lower", "enum": "enum", "oneof": "enum"}[name]
		if group == "" {
			group = name
		}
		if name == "len" && seen["lower"] {
			continue
		}
		if seen[name] || seen[group] {
			continue
		}
		seen[name], seen[group] = true, true
		if name == "len" {
			seen["lower"] = true
		}
		rules = append(rules, r)
	}
	return strings.Join(rules, ",")
}

func (g *gen) fieldValidator(t T) string {
	if g.prof.AllRules && g.chance(0.7) {
		return g.richValidator()
	}
	b := t.Deref()
	var rules []string
	if g.chance(0.5) {
		rules = append(rules, "required")
	}
	if g.chance(0.15) {
		// rules that merely contain the word "required" do not make the field required
		rules = []string{g.pick([]string{"required_without=Other", "required_with=Other", "omitempty,required_if=Other x", "excluded_unless=required 1"})}
		if b.K == "prim" && b.Name == "string" && g.chance(0.5) {
			rules = []string{"oneof=required optional"}
		}
		g.p.SetFeature("required-lookalike-rule")
		return strings.Join(rules, ",")
	}
	switch {
	case b.K == "prim" && b.Name == "string":
		rules = append(rules, g.pick([]string{"min=1", "max=20", "email", "len=5", "uuid", "oneof=a b c"}))
	case b.K == "prim" && (isIntPrim(b.Name) || isFloatPrim(b.Name)):
		rules = append(rules, g.pick([]string{"gte=0", "lte=100", "gt=1", "lt=50", "min=2", "max=9"}))
	case b.K == "slice":
		rules = append(rules, g.pick([]string{"min=1", "max=5"}))
	case b.K == "named" && g.prof.UsageValidators && g.p.KindOf(b) == "enum":
		e := g.p.Enum(b.Pkg, b.Name)
		if e.Base == "string" {
			rules = append(rules, "oneof="+strings.ReplaceAll(e.Values[0].Text, " ", "_"))
			g.p.SetFeature("usage-site-validator-on-ref")
		}
	}
	if len(rules) == 0 {
		return "required"
	}
	return strings.Join(rules, ",")
}

// ---- controllers ----

func (g *gen) genControllers() {
	prof, p := g.prof, g.p
	n := 1 + g.r.Intn(prof.MaxControllers)
	if prof.SameNameCtls && n < 2 {
		n = 2
	}
	prefixes := []string{"/users", "/orders", "/api/v1", "/admin", "/items", "/a/b"}
	sharedPrefix := g.pick(prefixes)
	for i := 0; i < n; i++ {
		c := Controller{Pkg: g.pick(g.ctlPkgs())}
		base := ctlNames[i%len(ctlNames)]
		if prof.SameNameCtls && i == 1 {
			c.Pkg = "ctl2"
			if p.Controllers[0].Pkg == "ctl2" {
				c.Pkg = "ctl"
			}
		}
		if prof.SameNameCtls && i == 1 {
			c.Name = p.Controllers[0].Name
			p.SetFeature("same-name-controllers")
		} else {
			c.Name = g.fresh(base)
		}
		c.Tag = strings.TrimSuffix(c.Name, "Ctl") + " Ops"
		if g.chance(0.3) {
			c.Tag = strings.TrimSuffix(c.Name, "Ctl")
		}
		nf := 1
		if prof.MultiFile {
			nf = 1 + g.r.Intn(3)
		}
		for f := 0; f < nf; f++ {
			c.Files = append(c.Files, fmt.Sprintf("%s_%s_%d.go", strings.ToLower(c.Name), c.Pkg, f))
		}
		// prefix
		switch k := g.r.Intn(10); {
		case k < 3:
			c.Route = sharedPrefix // shared between controllers
		case k < 8:
			c.Route = prefixes[g.r.Intn(len(prefixes))]
		default:
			c.Route = "/"
		}
		if prof.CtlRouteParams && g.chance(0.3) {
			c.Route = "/{tenant}" + c.Route
		}
		if prof.RouteStyle == "slashy" {
			switch g.r.Intn(6) {
			case 0:
				c.Route += "/"
				p.SetFeature("doubled-slash")
			case 1:
				c.Route = strings.Replace(c.Route, "/", "//", 1)
				p.SetFeature("doubled-slash")
			case 2:
				if len(c.Route) > 1 && g.chance(0.3) {
					c.Route = strings.TrimPrefix(c.Route, "/")
					p.SetFeature("no-leading-slash")
				}
			}
		}
		c.Descr = g.descr()
		if prof.Security && g.chance(0.4) {
			c.Security = g.genSecurityList()
		}
		if prof.GroupedControllers && g.chance(0.25) {
			c.Grouped = true
			p.SetFeature("controller-in-grouped-type-declaration")
		}
		if prof.ControllerFields && g.chance(0.25) {
			c.LeadFields = []string{g.pick([]string{"mu sync.Mutex", "once *sync.Once", "Mu sync.RWMutex"})}
			p.SetFeature("fields-before-embedded-controller")
		}
		if prof.BareControllers && i > 0 && g.chance(0.25) {
			// no @Route; sometimes no doc comment at all (declared right after a documented controller)
			c.NoRouteAnn, c.Route = true, ""
			if g.chance(0.6) {
				c.NoTag, c.Tag, c.Descr, c.Security = true, "", "", nil
				p.SetFeature("controller-without-any-doc")
			} else {
				p.SetFeature("controller-without-route")
			}
		}
		nm := g.r.Intn(prof.MaxMethods + 1)
		if i == 0 && nm == 0 {
			nm = 1
		}
		for m := 0; m < nm; m++ {
			c.Methods = append(c.Methods, g.genMethod(&c, m))
		}
		if prof.VerbPathReuse && len(c.Methods) >= 2 && g.chance(0.5) {
			// same path on another verb: copy route + path params of method 0 into the last method
			src := c.Methods[0]
			dst := &c.Methods[len(c.Methods)-1]
			if src.IsEndpoint() && dst.IsEndpoint() && dst.Verb != src.Verb && !hasBodyOrForm(dst.Params) == true {
				var keep []Param
				for _, pr := range dst.Params {
					if pr.In != "path" {
						keep = append(keep, pr)
					}
				}
				var pp []Param
				names := map[string]bool{}
				for _, pr := range keep {
					names[pr.GoName] = true
				}
				ok := true
				for _, pr := range src.Params {
					if pr.In == "path" {
						if names[pr.GoName] {
							ok = false
						}
						pp = append(pp, pr)
					}
				}
				if ok {
					dst.Route = src.Route
					dst.Params = append(pp, keep...)
					p.SetFeature("same-path-several-verbs")
				}
			}
		}
		if prof.TemplateTwins && g.chance(0.2) {
			// a template-equivalent twin: same shape, other verb, other variable names
			for si := range c.Methods {
				src := c.Methods[si]
				if !src.IsEndpoint() || !strings.Contains(src.Route, "{") {
					continue
				}
				twin := g.genMethod(&c, len(c.Methods))
				if !twin.IsEndpoint() || twin.Verb == src.Verb {
					break
				}
				var keep []Param
				names := map[string]bool{}
				for _, pr := range twin.Params {
					if pr.In != "path" || pr.GoName == "tenant" {
						keep = append(keep, pr)
						names[pr.GoName] = true
					}
				}
				route := src.Route
				ok := true
				var pp []Param
				for _, pr := range src.Params {
					if pr.In != "path" || pr.GoName == "tenant" {
						continue
					}
					np := pr
					np.GoName, np.Wire, np.Validate = pr.GoName+"Alt", "", ""
					if names[np.GoName] {
						ok = false
					}
					route = strings.Replace(route, "{"+pr.WireName()+"}", "{"+np.GoName+"}", 1)
					pp = append(pp, np)
				}
				if ok && len(pp) > 0 {
					twin.Route = route
					twin.Params = append(pp, keep...)
					c.Methods = append(c.Methods, twin)
					p.SetFeature("template-equivalent-twin")
				}
				break
			}
		}
		p.Controllers = append(p.Controllers, c)
	}
}

func hasBodyOrForm(ps []Param) bool {
	for _, p := range ps {
		if p.In == "body" || p.In == "form" {
			return true
		}
	}
	return false
}

var paramNames = []string{"id", "name", "q", "limit", "offset", "sort", "filter", "token", "lang", "page", "ref", "mode", "flag", "ver"}

// names that collide with template locals, Go predeclared identifiers or each other after ToLowerCamel
var hostileParamNames = []string{"user_id", "userId", "value", "opError", "controller", "statusCode", "conversionErr", "ginCtx", "req", "w", "r", "err", "len", "string", "x1", "a_b_c", "ID", "Id", "fiberCtx", "echoCtx", "authErr", "ctx2", "validatorErr", "fieldName", "engine", "json", "http", "fmt", "strconv"}

func (g *gen) simpleParamType(in string) T {
	prof := g.prof
	enums, aliases := g.enumsFor(g.curPkg), g.aliasesFor(g.curPkg)
	var t T
	switch {
	case prof.ParamTypeLevel == 0:
		t = Prim("string")
	case prof.ParamTypeLevel >= 2 && g.chance(0.3) && (len(enums) > 0 || len(aliases) > 0):
		if len(enums) > 0 && (len(aliases) == 0 || g.chance(0.5)) {
			e := enums[g.r.Intn(len(enums))]
			t = Named(e.Pkg, e.Name)
		} else {
			a := aliases[g.r.Intn(len(aliases))]
			t = Named(a.Pkg, a.Name)
		}
	default:
		t = Prim(g.pick(allPrims))
	}
	if prof.ParamTypeLevel >= 2 {
		if in == "query" && g.chance(0.2) {
			if t.K == "prim" {
				t = Prim(g.noByte(t.Name))
			}
			return Slice(t)
		}
		if in != "path" && g.chance(0.3) {
			return Ptr(t)
		}
	}
	return t
}

func (g *gen) paramValidator(t T) string {
	if g.prof.AllRules && g.chance(0.7) {
		return g.richValidator()
	}
	b := t.Deref()
	if b.K != "prim" {
		return ""
	}
	if g.chance(0.12) && !g.prof.RuntimeValidators {
		// contains the word "required" without being the rule
		return g.pick([]string{"required_without=Other", "excluded_unless=required 1"})
	}
	switch {
	case b.Name == "string":
		return g.pick([]string{"min=2", "max=8", "len=4", "oneof=aa bb cc", "required"})
	case isIntPrim(b.Name):
		return g.pick([]string{"gte=1", "lte=100", "gt=0", "lt=120", "required"})
	case isFloatPrim(b.Name):
		return g.pick([]string{"gte=0", "lt=1000"})
	}
	return ""
}

func (g *gen) bodyType() (T, bool) {
	structs := g.structsFor(g.curPkg, -1)
	if !g.hostileUsed && len(structs) > 0 && (g.hostileKind == "map-body" || g.hostileKind == "ptr-slice-body") {
		g.hostileUsed = true
		s := structs[g.r.Intn(len(structs))]
		if g.hostileKind == "map-body" {
			g.p.SetFeature("map-typed-body-or-result")
			return MapOf(Named(s.Pkg, s.Name)), true
		}
		g.p.SetFeature("slice-of-pointers")
		return Slice(Ptr(Named(s.Pkg, s.Name))), true
	}
	if len(structs) == 0 {
		return Slice(Prim("string")), true
	}
	s := structs[g.r.Intn(len(structs))]
	n := Named(s.Pkg, s.Name)
	switch g.r.Intn(5) {
	case 0:
		return Ptr(n), true
	case 1:
		return Slice(n), true
	case 2:
		return Slice(Prim("string")), true
	}
	return n, true
}

func (g *gen) retType() *T {
	prof := g.prof
	structs, enums, aliases := g.structsFor(g.curPkg, -1), g.enumsFor(g.curPkg), g.aliasesFor(g.curPkg)
	k := g.r.Intn(100)
	var t T
	if !g.hostileUsed && (g.hostileKind == "map-result" || g.hostileKind == "time-result" || g.hostileKind == "ptr-slice-result") {
		g.hostileUsed = true
		switch g.hostileKind {
		case "map-result":
			g.p.SetFeature("map-typed-body-or-result")
			t = MapOf(Prim("string"))
			if len(structs) > 0 {
				t = MapOf(Named(structs[0].Pkg, structs[0].Name))
			}
		case "time-result":
			g.p.SetFeature("time-typed-result")
			t = T{K: "time"}
		default:
			g.p.SetFeature("slice-of-pointers")
			t = Slice(Ptr(Prim("int")))
		}
		return &t
	}
	switch {
	case k < 20:
		return nil
	case k < 45 || (len(structs) == 0 && k < 80):
		t = Prim(g.pick(allPrims))
		if g.chance(0.2) {
			t = Slice(Prim(g.noByte(t.Name)))
		}
		if g.chance(0.15) {
			t = Ptr(Prim(g.pick(allPrims)))
		}
	case k < 80 && len(structs) > 0:
		s := structs[g.r.Intn(len(structs))]
		t = Named(s.Pkg, s.Name)
		switch g.r.Intn(4) {
		case 0:
			t = Ptr(t)
		case 1:
			t = Slice(t)
		}
	case k < 88 && len(enums) > 0:
		e := enums[g.r.Intn(len(enums))]
		t = Named(e.Pkg, e.Name)
		if g.chance(0.3) {
			t = Slice(t)
		}
	case k < 93 && len(aliases) > 0:
		a := aliases[g.r.Intn(len(aliases))]
		t = Named(a.Pkg, a.Name)
	case k < 96 && prof.AnyBytesTime:
		t = T{K: "any"}
	case k < 98 && prof.AnyBytesTime:
		t = T{K: "bytes"}
	case prof.NestedSlices:
		t = Slice(Slice(Prim("string")))
	default:
		t = Prim("string")
	}
	return &t
}

func (g *gen) genMethod(c *Controller, idx int) Method {
	prof := g.prof
	g.curPkg = c.Pkg
	m := Method{Name: g.fresh(g.pick(methodVerbsWords) + g.pick(nouns))}
	m.File = g.r.Intn(len(c.Files))
	m.Verb = g.pick(verbs)
	if prof.LowerVerbs && !g.p.HasFeature("lower-case-verb") && len(g.p.Controllers) == 0 && idx == 0 && g.chance(0.12) {
		m.Verb = strings.ToLower(m.Verb) // not a supported spelling: the project must be rejected, not half accepted
		g.p.SetFeature("lower-case-verb")
	}
	lit := strings.ToLower(m.Name)
	m.Route = "/" + lit
	if prof.NonEndpoint && g.chance(0.12) {
		// not an endpoint: no @Method, or no @Route
		if g.chance(0.5) {
			m.Verb = ""
		} else {
			m.NoRouteAnn = true
		}
		m.Ret = nil
		return m
	}
	m.Descr = g.descr()
	m.UseDescrAnn = m.Descr != "" && g.chance(0.4)
	m.Hidden = prof.Hidden && g.chance(0.2)
	if m.Hidden && g.chance(0.3) {
		m.HiddenArg = g.pick([]string{"staging", "internal", "v2"})
	}
	m.Deprecated = prof.Deprecated && g.chance(0.2)
	m.ValueRecv = prof.ValueReceivers && g.chance(0.2)
	if prof.Security && g.chance(0.35) {
		m.Security = g.genSecurityList()
	}
	usedNames := map[string]bool{"c": true}
	usedWire := map[string]bool{}
	allow := map[string]bool{}
	for _, in := range prof.ParamIn {
		allow[in] = true
	}
	// controller-prefix parameters must be bound
	if strings.Contains(c.Route, "{tenant}") {
		m.Params = append(m.Params, Param{GoName: "tenant", Type: Prim("string"), In: "path"})
		usedNames["tenant"] = true
	}
	newName := func() string {
		for tries := 0; tries < 50; tries++ {
			n := g.pick(paramNames)
			if g.hostileNames && g.chance(0.5) {
				n = g.pick(hostileParamNames)
			}
			if !usedNames[n] {
				usedNames[n] = true
				return n
			}
		}
		n := fmt.Sprintf("p%d", len(usedNames))
		usedNames[n] = true
		return n
	}
	// path params
	if allow["path"] {
		np := g.r.Intn(3)
		for i := 0; i < np; i++ {
			pr := Param{GoName: newName(), In: "path", Type: g.simpleParamType("path")}
			seg := pr.GoName
			if prof.WireNames && g.chance(0.3) {
				pr.Wire = pr.GoName + "Key"
				if prof.DashedWireNames {
					pr.Wire = pr.GoName + g.pick([]string{"Key", "-id", "_id", "-x-y"})
				}
				seg = pr.Wire
			}
			if g.chance(0.5) {
				m.Route += "/{" + seg + "}"
			} else {
				m.Route += fmt.Sprintf("/s%d/{%s}", i, seg)
			}
			if prof.Validators && g.chance(0.3) {
				pr.Validate = g.paramValidator(pr.Type)
			}
			pr.Descr = g.descr()
			m.Params = append(m.Params, pr)
		}
	}
	nq := g.r.Intn(4)
	for i := 0; i < nq; i++ {
		var ins []string
		for _, in := range []string{"query", "header"} {
			if allow[in] {
				ins = append(ins, in)
			}
		}
		if len(ins) == 0 {
			break
		}
		in := g.pick(ins)
		pr := Param{GoName: newName(), In: in, Type: g.simpleParamType(in)}
		if prof.WireNames && g.chance(0.35) {
			if in == "header" {
				pr.Wire = "X-" + strings.ToUpper(pr.GoName[:1]) + pr.GoName[1:] + "-Hdr"
				if prof.DashedWireNames && g.chance(0.4) {
					// not in canonical MIME header form
					pr.Wire = g.pick([]string{"x-" + strings.ToLower(pr.GoName) + "-hdr", "X-" + pr.GoName + "-HDR", strings.ToLower(pr.GoName) + "-token"})
				}
			} else {
				pr.Wire = pr.GoName + "_q"
				if prof.DashedWireNames && g.chance(0.4) {
					pr.Wire = pr.GoName + g.pick([]string{"-q", "-q", "&a", "<x>", "'s"})
				}
			}
		}
		if in == "header" && pr.Wire == "" && g.chance(0.5) {
			// plain Go names as header names are legal too
		}
		if usedWire[in+":"+pr.WireName()] {
			continue
		}
		usedWire[in+":"+pr.WireName()] = true
		if prof.Validators && g.chance(0.3) {
			pr.Validate = g.paramValidator(pr.Type)
		}
		pr.Descr = g.descr()
		m.Params = append(m.Params, pr)
	}
	if prof.SameWireAcrossLocations && g.chance(0.2) {
		// a query / header parameter that reuses the wire name of a path parameter (unique per location)
		for _, pp := range m.Params {
			if pp.In == "path" && pp.GoName != "tenant" {
				in := g.pick([]string{"query", "header"})
				if allow[in] && !usedWire[in+":"+pp.WireName()] {
					usedWire[in+":"+pp.WireName()] = true
					m.Params = append(m.Params, Param{GoName: newName(), In: in, Type: Prim("string"), Wire: pp.WireName()})
					g.p.SetFeature("wire-name-shared-by-two-locations")
				}
				break
			}
		}
	}
	canBody := false
	for _, v := range bodyVerbs {
		if m.Verb == v {
			canBody = true
		}
	}
	if canBody && allow["body"] && g.chance(0.5) {
		t, _ := g.bodyType()
		pr := Param{GoName: newName(), In: "body", Type: t, Descr: g.descr()}
		if t.IsPtr() && prof.Validators && g.chance(0.4) {
			pr.Validate = "required"
		}
		m.Params = append(m.Params, pr)
	} else if canBody && allow["form"] && g.chance(0.4) {
		nf := 1 + g.r.Intn(3)
		for i := 0; i < nf; i++ {
			pr := Param{GoName: newName(), In: "form", Type: g.simpleParamType("form"), Descr: g.descr()}
			if pr.Type.IsSlice() {
				pr.Type = *pr.Type.Elem
			}
			if prof.WireNames && g.chance(0.3) {
				pr.Wire = pr.GoName + "_f"
			}
			if prof.Validators && g.chance(0.3) {
				pr.Validate = g.paramValidator(pr.Type)
			}
			m.Params = append(m.Params, pr)
		}
	}
	if prof.CtxParams && g.chance(0.3) {
		pr := Param{GoName: "ctx", In: "ctx", Type: T{K: "ctx"}}
		at := g.r.Intn(len(m.Params) + 1)
		m.Params = append(m.Params[:at], append([]Param{pr}, m.Params[at:]...)...)
	}
	// shuffle parameter order (signature order is what counts)
	g.r.Shuffle(len(m.Params), func(i, j int) { m.Params[i], m.Params[j] = m.Params[j], m.Params[i] })
	if prof.GroupedParams && g.chance(0.3) {
		// one grouped field of three names (ga, gb, gc string) in front, every other parameter after it
		// as its own field: the position of a name inside a grouped field and the position of a field
		// in the list must not be confused
		var grp []Param
		for _, n := range []string{"ga", "gb", "gc"} {
			if !usedNames[n] && allow["query"] {
				usedNames[n] = true
				grp = append(grp, Param{GoName: n, In: "query", Type: Prim("string")})
			}
		}
		if len(grp) == 3 {
			// ... followed by a field of its own with the same type, then everything else
			grp = append(grp, Param{GoName: "gd", In: "query", Type: Prim("string"), OwnField: true})
			for i := range m.Params {
				m.Params[i].OwnField = true
			}
			m.Params = append(grp, m.Params...)
			m.GroupParams = true
			g.p.SetFeature("grouped-parameter-fields")
		}
	}
	m.Ret = g.retType()
	if prof.CustomErrors && g.chance(0.25) {
		// custom error type lives in the controller's package (DESIGN App. L)
		name := "ApiError" + strings.ToUpper(c.Pkg[:1]) + c.Pkg[1:]
		if g.p.Struct(c.Pkg, name) == nil {
			es := Struct{Name: name, Pkg: c.Pkg, IsError: true, Fields: []Field{{GoName: "Code", Type: Prim("int"), JSONName: "code"}, {GoName: "Reason", Type: Prim("string"), JSONName: "reason", Validate: "required"}}}
			if prof.ErrorEmbeds && g.chance(0.4) {
				// the error model embeds another struct and lists `error` last
				if cands := g.structsFor(c.Pkg, -1); len(cands) > 0 {
					e := cands[g.r.Intn(len(cands))]
					if e.Name[0] >= 'A' && e.Name[0] <= 'Z' {
						es.Fields = append([]Field{{Embedded: true, Type: Named(e.Pkg, e.Name)}}, es.Fields...)
						es.ErrorLast = true
						g.p.SetFeature("error-model-embeds-a-struct")
					}
				}
			}
			g.p.Structs = append(g.p.Structs, es)
		}
		m.ErrType = name
		m.ErrPtr = g.chance(0.5)
	}
	if prof.Responses {
		if g.chance(0.35) {
			if m.Ret != nil {
				m.Response = []int{200, 201, 202}[g.r.Intn(3)]
			} else {
				m.Response = []int{204, 202, 201}[g.r.Intn(3)]
			}
			if g.chance(0.5) {
				m.RespDescr = "All good"
			}
		}
		ne := g.r.Intn(3)
		if prof.RepeatedErrCodes {
			ne = g.r.Intn(5)
		}
		codes := []int{400, 401, 403, 404, 409, 422, 500, 503}
		seen := map[int]bool{}
		for i := 0; i < ne; i++ {
			cd := codes[g.r.Intn(len(codes))]
			if seen[cd] || cd == m.Response {
				continue
			}
			seen[cd] = true
			er := ErrResp{Code: cd}
			if g.chance(0.5) {
				er.Descr = "Failure " + fmt.Sprint(cd)
			}
			m.ErrResponses = append(m.ErrResponses, er)
		}
		if prof.ErrCodeIsSuccess && m.Response != 0 && g.chance(0.25) {
			m.ErrResponses = append(m.ErrResponses, ErrResp{Code: m.Response, Descr: "Same code as the success response"})
			g.p.SetFeature("error-response-code-equals-success-code")
		}
		if prof.RepeatedErrCodes && len(m.ErrResponses) >= 2 && g.chance(0.3) {
			// repeat the first code right after itself: a warning; the codes after it must survive
			dup := m.ErrResponses[0]
			m.ErrResponses = append([]ErrResp{dup}, m.ErrResponses...)
			g.p.SetFeature("repeated-error-response-code")
		}
	}
	if prof.RouteStyle == "slashy" {
		switch g.r.Intn(8) {
		case 0:
			m.Route = strings.Replace(m.Route, "/", "//", 1)
			g.p.SetFeature("doubled-slash")
		case 1:
			m.Route = strings.TrimPrefix(m.Route, "/")
			g.p.SetFeature("method-route-no-leading-slash")
		case 2:
			m.Route = m.Route + "/"
			g.p.SetFeature("trailing-slash")
		}
	}
	return m
}

func minI(a, b int) int {
	if a < b {
		return a
	}
	return b
}
