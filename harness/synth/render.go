package synth

import (
	"encoding/json"
	"fmt"
	"os"
	"path/filepath"
	"sort"
	"strings"
	"unicode/utf8"
)

// Pos is a 0-based position; columns count runes.
type Pos struct {
	File    string `json:"file"` // path relative to the project root
	Line    int    `json:"line"`
	Col     int    `json:"col"`
	EndLine int    `json:"end_line"`
	EndCol  int    `json:"end_col"`
}

type Rendered struct {
	Files     map[string]string // path relative to project root -> content
	Positions map[string]Pos
}

// BodyFn lets a lab replace method bodies (the router probe records calls there).
// It returns the statements of the body and extra import paths the file then needs.
type BodyFn func(p *Project, c *Controller, m *Method, qual func(pkgKey string) string) (body string, imports []string)

type RenderOpts struct {
	Body BodyFn
	// LeadingNoise inserts that many blank/comment lines at the top of each controller file and
	// multibyte text into descriptions (position stress for C18).
	LeadingNoise int
}

type fileBuilder struct {
	path  string
	lines []string
}

func (b *fileBuilder) line(s string) int {
	b.lines = append(b.lines, s)
	return len(b.lines) - 1
}

func runeLen(s string) int { return utf8.RuneCountInString(s) }

func (p *Project) qualifier() func(string) string {
	return func(key string) string {
		pk := p.Pkg(key)
		if pk == nil {
			return "missing"
		}
		return pk.Name
	}
}

func zeroBody(p *Project, c *Controller, m *Method, q func(string) string) string {
	var sb strings.Builder
	errExpr := "nil"
	if m.ErrType != "" && !m.ErrPtr {
		errExpr = m.ErrType + "{}"
	}
	if m.Ret != nil {
		sb.WriteString("\tvar zero " + m.Ret.GoExpr(c.Pkg, q) + "\n")
		sb.WriteString("\treturn zero, " + errExpr + "\n")
	} else {
		sb.WriteString("\treturn " + errExpr + "\n")
	}
	return sb.String()
}

func jsonStr(s string) string {
	b, _ := json.Marshal(s)
	return string(b)
}

// paramAnnotation renders the annotation line of a parameter and returns the column (runes) where
// the value starts.
func paramAnnotation(pr Param) (text string, valueCol int) {
	name := map[string]string{"path": "Path", "query": "Query", "header": "Header", "form": "FormField", "body": "Body"}[pr.In]
	var sb strings.Builder
	sb.WriteString("// @" + name + "(")
	valueCol = runeLen(sb.String())
	sb.WriteString(pr.AnnValue())
	var props []string
	if pr.Wire != "" {
		props = append(props, "name: "+jsonStr(pr.Wire))
	}
	if pr.Validate != "" {
		props = append(props, "validate: "+jsonStr(pr.Validate))
	}
	if len(props) > 0 {
		sb.WriteString(", { " + strings.Join(props, ", ") + " }")
	}
	sb.WriteString(")")
	if pr.Descr != "" {
		sb.WriteString(" " + pr.Descr)
	}
	return sb.String(), valueCol
}

func securityAnnotation(s Security) string {
	if s.Scopes == nil {
		return "// @Security(" + s.Scheme + ")" + secDescr(s)
	}
	qs := make([]string, len(s.Scopes))
	for i, sc := range s.Scopes {
		qs[i] = jsonStr(sc)
	}
	return "// @Security(" + s.Scheme + ", { scopes: [" + strings.Join(qs, ", ") + "] })" + secDescr(s)
}

func dropped(m *Method, key string) bool {
	for _, d := range m.DropAnn {
		if d == key {
			return true
		}
	}
	return false
}

// Render turns the descriptor into files. It never touches the disk.
func (p *Project) Render(opts RenderOpts) *Rendered {
	out := &Rendered{Files: map[string]string{}, Positions: map[string]Pos{}}
	q := p.qualifier()

	// ---- type declarations, one file per package ----
	for _, pk := range p.Pkgs {
		var body, extraConsts strings.Builder
		imports := map[string]bool{}
		use := func(t T) {
			t.Walk(func(x T) {
				if x.K == "named" && x.Pkg != pk.Key && x.Pkg != "" {
					imports[p.ImportPath(x.Pkg)] = true
				}
				if x.K == "time" {
					imports["time"] = true
				}
			})
		}
		n := 0
		for _, a := range p.Aliases {
			if a.Pkg != pk.Key {
				continue
			}
			n++
			eq := " "
			if a.Assigned {
				eq = " = "
			}
			body.WriteString(fmt.Sprintf("// %s is an alias.\ntype %s%s%s\n\n", a.Name, a.Name, eq, a.Base))
		}
		for _, e := range p.Enums {
			if e.Pkg != pk.Key {
				continue
			}
			n++
			eq := " "
			if e.Assigned {
				eq = " = "
			}
			body.WriteString(fmt.Sprintf("// %s is an enumeration.\ntype %s%s%s\n\nconst (\n", e.Name, e.Name, eq, e.Base))
			for vi, v := range e.Values {
				if e.SplitConsts && len(e.Values) > 1 && vi >= len(e.Values)/2 {
					// the rest of the constants lives in a second file of the package
					extraConsts.WriteString(fmt.Sprintf("const %s %s = %s\n\n", v.Name, e.Name, v.Lit))
					continue
				}
				body.WriteString(fmt.Sprintf("\t%s %s = %s\n", v.Name, e.Name, v.Lit))
			}
			body.WriteString(")\n\n")
			if len(e.Decoys) > 0 {
				body.WriteString("const (\n")
				for _, v := range e.Decoys {
					body.WriteString(fmt.Sprintf("\t%s %s = %s\n", v.Name, e.Base, v.Lit))
				}
				body.WriteString(")\n\n")
			}
		}
		for _, s := range p.Structs {
			if s.Pkg != pk.Key {
				continue
			}
			n++
			if s.Descr != "" {
				body.WriteString("// " + s.Descr + "\n")
			}
			body.WriteString("type " + s.Name + " struct {\n")
			if s.IsError && !s.ErrorLast {
				body.WriteString("\terror\n")
			}
			skipNext := false
			for fi, f := range s.Fields {
				if skipNext {
					skipNext = false
					continue
				}
				if f.GroupWithNext && fi+1 < len(s.Fields) {
					use(f.Type)
					body.WriteString("\t" + f.GoName + ", " + s.Fields[fi+1].GoName + " " + f.Type.GoExpr(pk.Key, q) + "\n")
					skipNext = true
					continue
				}
				use(f.Type)
				if f.Descr != "" {
					body.WriteString("\t// " + f.Descr + "\n")
				}
				if f.Deprecated {
					body.WriteString("\t// @Deprecated\n")
				}
				var tags []string
				if f.JSONName != "" || f.OmitEmpty {
					j := f.JSONName
					if f.OmitEmpty {
						j += ",omitempty"
					}
					tags = append(tags, `json:"`+j+`"`)
				}
				if f.Validate != "" {
					tags = append(tags, `validate:"`+f.Validate+`"`)
				}
				tag := ""
				if len(tags) > 0 {
					tag = " `" + strings.Join(tags, " ") + "`"
				}
				if f.Embedded {
					body.WriteString("\t" + f.Type.GoExpr(pk.Key, q) + tag + "\n")
				} else {
					body.WriteString("\t" + f.GoName + " " + f.Type.GoExpr(pk.Key, q) + tag + "\n")
				}
			}
			if s.IsError && s.ErrorLast {
				body.WriteString("\terror\n")
			}
			body.WriteString("}\n\n")
		}
		if n == 0 {
			continue
		}
		var sb strings.Builder
		sb.WriteString("package " + pk.Name + "\n\n")
		writeImports(&sb, imports, nil)
		sb.WriteString(body.String())
		out.Files[filepath.Join(pk.Dir, "zz_types.go")] = sb.String()
		if extraConsts.Len() > 0 {
			out.Files[filepath.Join(pk.Dir, "aa_consts.go")] = "package " + pk.Name + "\n\n" + extraConsts.String()
		}
	}

	// ---- controllers ----
	type fileAcc struct {
		pkg     *Pkg
		imports map[string]bool
		chunks  []func(b *fileBuilder)
	}
	files := map[string]*fileAcc{}
	var fileOrder []string
	getFile := func(pkgKey, base string) *fileAcc {
		pk := p.Pkg(pkgKey)
		path := filepath.Join(pk.Dir, base)
		if fa, ok := files[path]; ok {
			return fa
		}
		fa := &fileAcc{pkg: pk, imports: map[string]bool{}}
		files[path] = fa
		fileOrder = append(fileOrder, path)
		return fa
	}
	for ci := range p.Controllers {
		c := &p.Controllers[ci]
		// declaration goes to Files[0]
		declPath := filepath.Join(p.Pkg(c.Pkg).Dir, c.Files[0])
		fa := getFile(c.Pkg, c.Files[0])
		fa.imports["github.com/gopher-fleece/runtime"] = true
		for _, lf := range c.LeadFields {
			if strings.Contains(lf, "sync.") {
				fa.imports["sync"] = true
			}
		}
		fa.chunks = append(fa.chunks, func(b *fileBuilder) {
			key := "ctl/" + c.Name
			ind, off := "", 0
			if c.Grouped {
				b.line("// Declarations of this file, grouped (this comment belongs to the block, not to a type).")
				b.line("type (")
				ind, off = "\t", 1
			}
			first := len(b.lines)
			if c.Descr != "" {
				b.line(ind + "// " + c.Descr)
			}
			if !c.NoTag {
				ln := b.line(ind + "// @Tag(" + c.Tag + ")")
				out.Positions[key+"/ann/Tag"] = Pos{File: declPath, Line: ln, EndLine: ln, Col: off, EndCol: runeLen(b.lines[ln])}
			}
			if !c.NoRouteAnn {
				ln := b.line(ind + "// @Route(" + c.Route + ")")
				out.Positions[key+"/ann/Route/value"] = Pos{File: declPath, Line: ln, EndLine: ln, Col: off + runeLen("// @Route("), EndCol: off + runeLen("// @Route(") + runeLen(c.Route)}
			}
			for i, s := range c.Security {
				ln := b.line(ind + securityAnnotation(s))
				out.Positions[fmt.Sprintf("%s/ann/Security/%d", key, i)] = Pos{File: declPath, Line: ln, EndLine: ln, Col: off, EndCol: runeLen(b.lines[ln])}
			}
			for i, x := range c.ExtraAnn {
				ln := b.line(ind + x)
				out.Positions[fmt.Sprintf("%s/extra/%d", key, i)] = Pos{File: declPath, Line: ln, EndLine: ln, Col: off, EndCol: runeLen(b.lines[ln])}
			}
			last := len(b.lines) - 1
			if last >= first {
				out.Positions[key+"/comment"] = Pos{File: declPath, Line: first, EndLine: last, EndCol: runeLen(b.lines[last])}
			}
			var ln, end int
			if c.Grouped {
				ln = b.line(ind + c.Name + " struct {")
			} else {
				ln = b.line("type " + c.Name + " struct {")
			}
			for _, lf := range c.LeadFields {
				b.line(ind + "\t" + lf)
			}
			b.line(ind + "\truntime.GleeceController")
			end = b.line(ind + "}")
			if c.Grouped {
				b.line(")")
				out.Positions[key+"/decl"] = Pos{File: declPath, Line: ln, Col: off, EndLine: end, EndCol: 1 + off}
			} else {
				out.Positions[key+"/decl"] = Pos{File: declPath, Line: ln, Col: 5, EndLine: end, EndCol: 1}
			}
			b.line("")
		})
		for mi := range c.Methods {
			m := &c.Methods[mi]
			base := c.Files[m.File%len(c.Files)]
			mPath := filepath.Join(p.Pkg(c.Pkg).Dir, base)
			mfa := getFile(c.Pkg, base)
			for _, pr := range m.Params {
				pr.Type.Walk(func(x T) {
					if x.K == "named" && x.Pkg != c.Pkg && x.Pkg != "" {
						mfa.imports[p.ImportPath(x.Pkg)] = true
					}
					if x.K == "time" {
						mfa.imports["time"] = true
					}
					if x.K == "ctx" {
						mfa.imports["context"] = true
					}
				})
			}
			if m.Ret != nil {
				m.Ret.Walk(func(x T) {
					if x.K == "named" && x.Pkg != c.Pkg && x.Pkg != "" {
						mfa.imports[p.ImportPath(x.Pkg)] = true
					}
					if x.K == "time" {
						mfa.imports["time"] = true
					}
				})
			}
			var bodyText string
			if m.RawBody != "" {
				bodyText = m.RawBody
			} else if opts.Body != nil {
				var extra []string
				bodyText, extra = opts.Body(p, c, m, q)
				for _, e := range extra {
					mfa.imports[e] = true
				}
			} else {
				bodyText = zeroBody(p, c, m, q)
			}
			mfa.chunks = append(mfa.chunks, func(b *fileBuilder) {
				key := "m/" + c.Name + "." + m.Name
				first := len(b.lines)
				mark := func(k string, ln, col, endCol int) {
					out.Positions[key+"/"+k] = Pos{File: mPath, Line: ln, Col: col, EndLine: ln, EndCol: endCol}
				}
				for _, ll := range m.LeadLines {
					b.line(ll)
				}
				if m.Descr != "" && !m.UseDescrAnn {
					for _, dl := range strings.Split(m.Descr, "\n") {
						b.line("// " + dl)
					}
				}
				if m.Verb != "" && !dropped(m, "Method") {
					ln := b.line("// @Method(" + m.Verb + ")")
					mark("ann/Method/value", ln, runeLen("// @Method("), runeLen("// @Method(")+runeLen(m.Verb))
					mark("ann/Method/line", ln, 0, runeLen(b.lines[ln]))
				}
				if !m.NoRouteAnn && !dropped(m, "Route") {
					ln := b.line("// @Route(" + m.Route + ")")
					mark("ann/Route/value", ln, runeLen("// @Route("), runeLen("// @Route(")+runeLen(m.Route))
					mark("ann/Route/line", ln, 0, runeLen(b.lines[ln]))
				}
				if m.Descr != "" && m.UseDescrAnn {
					b.line("// @Description " + strings.ReplaceAll(m.Descr, "\n", " "))
				}
				for _, pr := range m.Params {
					if pr.In == "ctx" {
						continue
					}
					annName := map[string]string{"path": "Path", "query": "Query", "header": "Header", "form": "FormField", "body": "Body"}[pr.In]
					if dropped(m, annName+":"+pr.GoName) {
						continue
					}
					text, vcol := paramAnnotation(pr)
					ln := b.line(text)
					mark("ann/"+annName+":"+pr.GoName+"/value", ln, vcol, vcol+runeLen(pr.AnnValue()))
					mark("ann/"+annName+":"+pr.GoName+"/line", ln, 0, runeLen(text))
				}
				for i, s := range m.Security {
					ln := b.line(securityAnnotation(s))
					mark(fmt.Sprintf("ann/Security/%d/line", i), ln, 0, runeLen(b.lines[ln]))
				}
				if m.Response != 0 {
					t := fmt.Sprintf("// @Response(%d)", m.Response)
					if m.RespDescr != "" {
						t += " " + m.RespDescr
					}
					ln := b.line(t)
					mark("ann/Response/value", ln, runeLen("// @Response("), runeLen("// @Response(")+len(fmt.Sprint(m.Response)))
				}
				for _, er := range m.ErrResponses {
					t := fmt.Sprintf("// @ErrorResponse(%d)", er.Code)
					if er.Descr != "" {
						t += " " + er.Descr
					}
					b.line(t)
				}
				if m.Hidden && m.HiddenArg != "" {
					b.line("// @Hidden(" + m.HiddenArg + ")")
				} else if m.Hidden {
					b.line("// @Hidden")
				}
				if m.Deprecated {
					b.line("// @Deprecated")
				}
				for i, x := range m.ExtraAnn {
					ln := b.line(x)
					mark(fmt.Sprintf("extra/%d/line", i), ln, 0, runeLen(x))
				}
				last := len(b.lines) - 1
				if last >= first {
					out.Positions[key+"/comment"] = Pos{File: mPath, Line: first, EndLine: last, EndCol: runeLen(b.lines[last])}
				}
				// signature
				recv := "(c *" + c.Name + ")"
				if m.ValueRecv {
					recv = "(c " + c.Name + ")"
				}
				var sig strings.Builder
				sig.WriteString("func " + recv + " " + m.Name)
				ln := len(b.lines)
				broken := false
				if m.RawSig != "" {
					sig.WriteString(m.RawSig)
				} else {
					sig.WriteString("(")
					for i, pr := range m.Params {
						if i > 0 {
							sig.WriteString(",")
							if pr.BreakBefore {
								sig.WriteString("\n\t")
								broken = true
							} else {
								sig.WriteString(" ")
							}
						}
						start := runeLen(sig.String())
						te := pr.Type.GoExpr(c.Pkg, q)
						if m.GroupParams && i+1 < len(m.Params) && m.Params[i+1].Type.GoExpr(c.Pkg, q) == te && !m.Params[i+1].OwnField {
							// grouped field: the type follows the last name of the run
							sig.WriteString(pr.GoName)
						} else {
							sig.WriteString(pr.GoName + " " + te)
						}
						if !broken {
							mark("param/"+pr.GoName, ln, start, runeLen(sig.String()))
						}
					}
					sig.WriteString(") ")
					errT := "error"
					if m.ErrType != "" {
						errT = m.ErrType
						if m.ErrPtr {
							errT = "*" + errT
						}
					}
					if m.Ret != nil {
						sig.WriteString("(")
						start := runeLen(sig.String())
						sig.WriteString(m.Ret.GoExpr(c.Pkg, q) + ", " + errT)
						if !broken {
							mark("results", ln, start, runeLen(sig.String()))
						}
						sig.WriteString(")")
					} else {
						start := runeLen(sig.String())
						sig.WriteString(errT)
						if !broken {
							mark("results", ln, start, runeLen(sig.String()))
						}
					}
				}
				sig.WriteString(" {")
				for _, part := range strings.Split(sig.String(), "\n") {
					b.line(part)
				}
				if !broken {
					mark("func", ln, 0, runeLen(sig.String()))
				}
				for _, bl := range strings.Split(strings.TrimRight(bodyText, "\n"), "\n") {
					b.line(bl)
				}
				end := b.line("}")
				out.Positions[key+"/decl"] = Pos{File: mPath, Line: ln, Col: 0, EndLine: end, EndCol: 1}
				b.line("")
			})
		}
	}
	sort.Strings(fileOrder)
	for _, path := range fileOrder {
		fa := files[path]
		b := &fileBuilder{path: path}
		b.line("package " + fa.pkg.Name)
		b.line("")
		var sb strings.Builder
		writeImports(&sb, fa.imports, nil)
		for _, il := range strings.Split(strings.TrimRight(sb.String(), "\n"), "\n") {
			b.line(il)
		}
		b.line("")
		for i := 0; i < opts.LeadingNoise; i++ {
			if i%2 == 0 {
				b.line("// noise: ünïcödé — 日本語 🙂 @NotAnAnnotation(x)")
			} else {
				b.line("")
			}
		}
		if opts.LeadingNoise > 0 {
			b.line("")
			b.line("var _noise_" + strings.Map(func(r rune) rune {
				if r >= 'a' && r <= 'z' || r >= '0' && r <= '9' {
					return r
				}
				return '_'
			}, filepath.Base(path)) + " = 0")
			b.line("")
		}
		for _, ch := range fa.chunks {
			ch(b)
		}
		out.Files[path] = strings.Join(b.lines, "\n") + "\n"
	}

	for path, content := range p.ExtraFiles {
		out.Files[path] = content
	}
	out.Files["gleece.config.json"] = p.Config.JSON()
	return out
}

func writeImports(sb *strings.Builder, imports map[string]bool, aliased map[string]string) {
	if len(imports) == 0 && len(aliased) == 0 {
		return
	}
	var ks []string
	for k := range imports {
		ks = append(ks, k)
	}
	sort.Strings(ks)
	sb.WriteString("import (\n")
	for _, k := range ks {
		sb.WriteString("\t" + jsonStr(k) + "\n")
	}
	var as []string
	for k := range aliased {
		as = append(as, k)
	}
	sort.Strings(as)
	for _, k := range as {
		sb.WriteString("\t" + aliased[k] + " " + jsonStr(k) + "\n")
	}
	sb.WriteString(")\n\n")
}

// JSON renders the gleece configuration file.
func (c Config) JSON() string {
	return c.JSONWith(nil)
}

// Map builds the configuration document; mutate may edit it (C20 corruptions).
func (c Config) Map() map[string]any {
	info := map[string]any{"title": c.Title, "version": c.Version}
	if c.InfoDescr != "" {
		info["description"] = c.InfoDescr
	}
	if c.Terms != "" {
		info["termsOfService"] = c.Terms
	}
	if c.ContactName != "" || c.ContactURL != "" || c.ContactEmail != "" {
		ct := map[string]any{}
		if c.ContactName != "" {
			ct["name"] = c.ContactName
		}
		if c.ContactURL != "" {
			ct["url"] = c.ContactURL
		}
		if c.ContactEmail != "" {
			ct["email"] = c.ContactEmail
		}
		info["contact"] = ct
	}
	if c.LicenseName != "" {
		lc := map[string]any{"name": c.LicenseName}
		if c.LicenseURL != "" {
			lc["url"] = c.LicenseURL
		}
		info["license"] = lc
	}
	schemes := []any{}
	for _, s := range c.Schemes {
		m := map[string]any{"description": s.Description, "name": s.Name, "type": s.Type}
		if s.In != "" {
			m["in"] = s.In
		}
		if s.FieldName != "" {
			m["fieldName"] = s.FieldName
		}
		if s.Scheme != "" {
			m["scheme"] = s.Scheme
		}
		if s.Flows != nil {
			m["flows"] = s.Flows
		}
		if s.OpenIDConnectURL != "" {
			m["openIdConnectUrl"] = s.OpenIDConnectURL
		}
		schemes = append(schemes, m)
	}
	oa := map[string]any{
		"openapi":             c.OpenAPI,
		"info":                info,
		"baseUrl":             c.BaseURL,
		"securitySchemes":     schemes,
		"specGeneratorConfig": map[string]any{"outputPath": c.SpecOut},
	}
	if c.DefaultSecurity != nil {
		sc := c.DefaultSecurity.Scopes
		if sc == nil {
			sc = []string{}
		}
		oa["defaultSecurity"] = map[string]any{"name": c.DefaultSecurity.Scheme, "scopes": sc}
	}
	rc := map[string]any{
		"engine":     c.Engine,
		"outputPath": c.RoutesOut,
		"authorizationConfig": map[string]any{
			"authFileFullPackageName":    c.AuthPkg,
			"enforceSecurityOnAllRoutes": c.Enforce,
		},
		"validateResponsePayload": c.ValidateResp,
		"skipGenerateDateComment": c.SkipDate,
	}
	if c.Perms != "" {
		rc["outputFilePerms"] = c.Perms
	}
	if c.PackageName != "" {
		rc["packageName"] = c.PackageName
	}
	doc := map[string]any{
		"commonConfig":           map[string]any{"controllerGlobs": c.Globs},
		"routesConfig":           rc,
		"openapiGeneratorConfig": oa,
	}
	if c.TopLevelEnum || c.EnumValidator {
		doc["experimentalConfig"] = map[string]any{"validateTopLevelOnlyEnum": c.TopLevelEnum, "generateEnumValidator": c.EnumValidator}
	}
	return doc
}

func (c Config) JSONWith(mutate func(doc map[string]any)) string {
	doc := c.Map()
	if mutate != nil {
		mutate(doc)
	}
	b, _ := json.MarshalIndent(doc, "", "  ")
	return string(b) + "\n"
}

// WriteTo writes the rendered files below root.
func (r *Rendered) WriteTo(root string) error {
	for rel, content := range r.Files {
		path := filepath.Join(root, rel)
		if err := os.MkdirAll(filepath.Dir(path), 0o755); err != nil {
			return err
		}
		if err := os.WriteFile(path, []byte(content), 0o644); err != nil {
			return err
		}
	}
	return nil
}

func secDescr(s Security) string {
	if s.Descr == "" {
		return ""
	}
	return " " + s.Descr
}
