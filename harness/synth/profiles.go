package synth

// Feature profiles (DESIGN §2.1): each lab selects which features are on so that a defect owned by
// another property cannot blind it.
var allIn = []string{"path", "query", "header", "form", "body"}

var Profiles = map[string]Profile{
	// spec lab, routing shape: C01
	"routes": {Name: "routes", MaxControllers: 4, MaxMethods: 8, MultiPkg: true, MultiFile: true, Hidden: true, Deprecated: true,
		NonEndpoint: true, ParamIn: []string{"path", "query"}, ParamTypeLevel: 0, Models: 0, RouteStyle: "slashy", CtlRouteParams: true,
		VerbPathReuse: true, Descriptions: true, BareControllers: true, TemplateTwins: true, GroupedControllers: true, ControllerFields: true, NestedBetween: true, CrossCtlSameRoute: true},
	// spec lab, signatures: C06
	"signatures": {Name: "signatures", MaxControllers: 3, MaxMethods: 6, MultiPkg: true, MultiFile: true, Hidden: true, Deprecated: true,
		ParamIn: allIn, ParamTypeLevel: 2, Validators: true, Models: 1, CustomErrors: true, Responses: true, RouteStyle: "clean",
		Descriptions: true, WireNames: true, CtxParams: true, AnyBytesTime: true, NestedSlices: true, GroupedParams: true, RepeatedErrCodes: true, LookalikeTypes: true, SameWireAcrossLocations: true},
	// spec lab, models: C07
	"models": {Name: "models", MaxControllers: 2, MaxMethods: 5, MultiPkg: true, MultiFile: false, ParamIn: []string{"path", "query", "header", "form", "body"},
		ParamTypeLevel: 2, Models: 2, FieldValidators: true, CustomErrors: true, RouteStyle: "clean", Maps: true, HiddenJSON: true,
		Descriptions: true, AnyBytesTime: true, NestedSlices: true, UsageValidators: true, SameNameTypes: true, ErrorEmbeds: true},
	// spec lab, security: C04
	"security": {Name: "security", MaxControllers: 3, MaxMethods: 5, MultiPkg: true, MultiFile: true, Hidden: true, Security: true,
		DefaultSecP: 0.5, EnforceP: 0.4, ParamIn: []string{"path", "query"}, ParamTypeLevel: 0, Models: 0, RouteStyle: "clean", OAuthSchemes: true, GroupedControllers: true, ControllerFields: true},
	// router labs (compile-safe per the acceptance survey, DESIGN Appendix L): C02 C03 C05 C12
	"router": {Name: "router", MaxControllers: 3, MaxMethods: 5, MultiPkg: true, MultiFile: true, Hidden: true, ParamIn: allIn, ParamTypeLevel: 2,
		Validators: true, RuntimeValidators: true, Models: 1, CustomErrors: true, Responses: false, RouteStyle: "clean", CtlRouteParams: true, VerbPathReuse: true,
		WireNames: true, CtxParams: true, Security: false, DashedWireNames: true, GroupedParams: true, GroupedControllers: true, ControllerFields: true, NestedBetween: true, SameNameTypes: true, CrossCtlSameRoute: true},
	// everything the spec emitters understand: C08, C11
	"fullspec": {Name: "fullspec", MaxControllers: 3, MaxMethods: 6, MultiPkg: true, MultiFile: true, Hidden: true, Deprecated: true,
		Security: true, DefaultSecP: 0.4, ParamIn: allIn, ParamTypeLevel: 2, Validators: true, FieldValidators: true, Models: 2,
		CustomErrors: true, Responses: true, RouteStyle: "clean", CtlRouteParams: true, VerbPathReuse: true, Maps: true,
		Descriptions: true, WireNames: true, CtxParams: true, AnyBytesTime: true, NestedSlices: true, TemplateTwins: true, OAuthSchemes: true, ErrCodeIsSuccess: true, RepeatedErrCodes: true, GroupedParams: true, ErrorEmbeds: true},
}
