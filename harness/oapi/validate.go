package oapi

import (
	"encoding/json"
	"fmt"
	"math"
	"regexp"
	"sort"
	"strings"
)

type Problem struct {
	Kind   string
	Where  string // JSON-pointer-like location
	Detail string
	Facts  map[string]string
}

var tmplParam = regexp.MustCompile(`\{([^{}/]+)\}`)

func jsonTypeOf(v any) string {
	switch t := v.(type) {
	case string:
		return "string"
	case bool:
		return "boolean"
	case float64:
		if t == math.Trunc(t) {
			return "integer"
		}
		return "number"
	case json.Number:
		if strings.ContainsAny(t.String(), ".eE") {
			return "number"
		}
		return "integer"
	case nil:
		return "null"
	case []any:
		return "array"
	case map[string]any:
		return "object"
	}
	return "unknown"
}

// Validate checks the structural closure rules of the C08 statement.
func (d *Doc) Validate() []Problem {
	var out []Problem
	add := func(kind, where, detail string, facts map[string]string) {
		out = append(out, Problem{Kind: kind, Where: where, Detail: detail, Facts: facts})
	}
	schemas := d.Schemas()
	// 1. every $ref resolves
	Walk(d.Raw, "#", func(path string, m map[string]any) {
		if r, ok := m["$ref"].(string); ok {
			if !strings.HasPrefix(r, "#/components/schemas/") {
				add("ref-unsupported", path, "reference "+r+" does not point into components.schemas", nil)
				return
			}
			name := strings.TrimPrefix(r, "#/components/schemas/")
			if _, ok := schemas[name]; !ok {
				add("ref-dangling", path, "reference "+r+" has no component", nil)
			}
		}
		// 5. enum values belong to the declared type
		if ev, ok := m["enum"].([]any); ok {
			t := SchemaType(m)
			if t != "" && !strings.Contains(t, "|") {
				for _, v := range ev {
					jt := jsonTypeOf(v)
					okv := jt == t || (t == "number" && jt == "integer")
					if !okv {
						add("enum-value-type", path, fmt.Sprintf("enum value %v (JSON %s) does not belong to declared type %s", v, jt, t), map[string]string{"schema_type": t, "value_json_type": jt})
						break
					}
				}
			}
		}
	})
	// 2-4. operations
	paths := Obj(d.Raw["paths"])
	var ps []string
	for p := range paths {
		ps = append(ps, p)
	}
	sort.Strings(ps)
	for _, p := range ps {
		item := Obj(paths[p])
		if !strings.HasPrefix(p, "/") {
			add("path-no-leading-slash", "#/paths/"+p, "path template does not start with /", nil)
		}
		tmpl := map[string]int{}
		for _, mm := range tmplParam.FindAllStringSubmatch(p, -1) {
			tmpl[mm[1]]++
		}
		for n, c := range tmpl {
			if c > 1 {
				add("path-template-duplicate", "#/paths/"+p, "template parameter {"+n+"} appears more than once", nil)
			}
		}
		for _, v := range Verbs {
			op := Obj(item[v])
			if op == nil {
				continue
			}
			where := "#/paths/" + p + "/" + v
			seen := map[string]int{}
			pathParams := map[string]bool{}
			all := append(append([]any{}, Arr(item["parameters"])...), Arr(op["parameters"])...)
			for _, pv := range all {
				pm := Obj(pv)
				key := Str(pm["in"]) + ":" + Str(pm["name"])
				seen[key]++
				if Str(pm["in"]) == "path" {
					pathParams[Str(pm["name"])] = true
					if !Bool(pm["required"]) {
						add("path-param-not-required", where, "path parameter "+Str(pm["name"])+" is not marked required", nil)
					}
					if tmpl[Str(pm["name"])] == 0 {
						add("path-param-not-in-template", where, "path parameter "+Str(pm["name"])+" has no {"+Str(pm["name"])+"} in the template", nil)
					}
				}
				if pm["schema"] == nil && pm["content"] == nil {
					add("param-without-schema", where, "parameter "+key+" has neither schema nor content", nil)
				}
			}
			for k, c := range seen {
				if c > 1 {
					add("param-duplicate", where, "parameter "+k+" is declared "+fmt.Sprint(c)+" times", nil)
				}
			}
			for n := range tmpl {
				if !pathParams[n] {
					add("template-param-unbound", where, "{"+n+"} has no matching path parameter", nil)
				}
			}
			resps := Obj(op["responses"])
			if len(resps) == 0 {
				add("no-responses", where, "operation has no responses", nil)
			}
			for code, rv := range resps {
				if _, ok := Obj(rv)["description"].(string); !ok {
					add("response-without-description", where+"/responses/"+code, "response has no description", nil)
				}
			}
			if id, ok := op["operationId"].(string); !ok || id == "" {
				add("no-operation-id", where, "operation has no operationId", nil)
			}
			for _, sr := range Arr(op["security"]) {
				for name := range Obj(sr) {
					if _, ok := d.SecuritySchemes()[name]; !ok {
						add("security-scheme-undeclared", where, "security requirement names "+name+" which is not under components.securitySchemes", nil)
					}
				}
			}
		}
	}
	return out
}
