// Package oapi is a small structural reader/validator for OpenAPI documents built on
// encoding/json only (deliberately not kin-openapi / libopenapi, which gleece itself trusts).
package oapi

import (
	"bytes"
	"encoding/json"
	"fmt"
	"os"
	"sort"
	"strings"
)

type Doc struct {
	Raw map[string]any
}

func Load(path string) (*Doc, error) {
	b, err := os.ReadFile(path)
	if err != nil {
		return nil, err
	}
	return Parse(b)
}

func Parse(b []byte) (*Doc, error) {
	var m map[string]any
	dec := json.NewDecoder(bytes.NewReader(b))
	dec.UseNumber()
	if err := dec.Decode(&m); err != nil {
		return nil, fmt.Errorf("spec is not a JSON object: %w", err)
	}
	if dec.More() {
		return nil, fmt.Errorf("spec is not a JSON object: data after the top-level value")
	}
	return &Doc{Raw: narrow(m).(map[string]any)}, nil
}

// narrow turns json.Number into float64 wherever that is exact (|v| < 2^53 and the same printed form);
// larger integers (uint64 enum constants...) stay json.Number so that their digits survive.
func narrow(v any) any {
	switch t := v.(type) {
	case map[string]any:
		for k, x := range t {
			t[k] = narrow(x)
		}
		return t
	case []any:
		for i, x := range t {
			t[i] = narrow(x)
		}
		return t
	case json.Number:
		f, err := t.Float64()
		if err != nil {
			return t
		}
		if f > -9007199254740992 && f < 9007199254740992 {
			return f
		}
		return t
	}
	return v
}

var Verbs = []string{"get", "post", "put", "delete", "patch", "head", "options", "trace"}

func Obj(v any) map[string]any {
	m, _ := v.(map[string]any)
	return m
}

func Arr(v any) []any {
	a, _ := v.([]any)
	return a
}

func Str(v any) string {
	s, _ := v.(string)
	return s
}

func Bool(v any) bool {
	b, _ := v.(bool)
	return b
}

type Op struct {
	Verb string
	Path string
	Raw  map[string]any
}

func (o Op) Key() string { return o.Verb + " " + o.Path }

// Operations lists every operation of the document.
func (d *Doc) Operations() []Op {
	var out []Op
	paths := Obj(d.Raw["paths"])
	var ps []string
	for p := range paths {
		ps = append(ps, p)
	}
	sort.Strings(ps)
	for _, p := range ps {
		item := Obj(paths[p])
		for _, v := range Verbs {
			if op := Obj(item[v]); op != nil {
				out = append(out, Op{Verb: v, Path: p, Raw: op})
			}
		}
	}
	return out
}

func (d *Doc) Schemas() map[string]any {
	return Obj(Obj(d.Raw["components"])["schemas"])
}

func (d *Doc) SecuritySchemes() map[string]any {
	return Obj(Obj(d.Raw["components"])["securitySchemes"])
}

// SchemaType returns the (single) type of a schema: "type": "x" or "type": ["x"].
func SchemaType(s map[string]any) string {
	switch t := s["type"].(type) {
	case string:
		return t
	case []any:
		var ts []string
		for _, x := range t {
			if Str(x) != "null" {
				ts = append(ts, Str(x))
			}
		}
		return strings.Join(ts, "|")
	}
	return ""
}

// RefName returns the component name of a "$ref": "#/components/schemas/X".
func RefName(s map[string]any) string {
	r := Str(s["$ref"])
	return strings.TrimPrefix(r, "#/components/schemas/")
}

// Walk visits every JSON object in the document with its JSON-pointer-like path.
func Walk(v any, path string, f func(path string, m map[string]any)) {
	switch t := v.(type) {
	case map[string]any:
		f(path, t)
		ks := make([]string, 0, len(t))
		for k := range t {
			ks = append(ks, k)
		}
		sort.Strings(ks)
		for _, k := range ks {
			Walk(t[k], path+"/"+k, f)
		}
	case []any:
		for i, e := range t {
			Walk(e, fmt.Sprintf("%s/%d", path, i), f)
		}
	}
}
