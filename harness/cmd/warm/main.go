// warm imports what every generated router needs, so that `setup.sh` can put the compiled engines
// (plain and -race) into the base build cache; checks then work on a throw-away overlay of that cache.
package main

import (
	_ "github.com/gin-gonic/gin"
	_ "github.com/go-chi/chi/v5"
	_ "github.com/go-playground/validator/v10"
	_ "github.com/gofiber/fiber/v2"
	_ "github.com/gopher-fleece/runtime"
	_ "github.com/gorilla/mux"
	_ "github.com/labstack/echo/v4"
)

func main() {}
