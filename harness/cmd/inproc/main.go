// inproc links the real gleece packages (built with -tags verif from /repo's working tree) and
// runs the in-process monitors. One invocation = one batch; results go to the -out file.
package main

import (
	"encoding/json"
	"flag"
	"fmt"
	"os"
	"runtime/debug"
	"strings"

	gleececmd "github.com/gopher-fleece/gleece/v2/cmd"

	"verif/harness/monitors/c15"
	"verif/harness/monitors/c16"
	"verif/harness/monitors/c17"
	"verif/harness/monitors/pipe"
	"verif/harness/report"
)

func main() {
	if len(os.Args) < 2 {
		fmt.Fprintln(os.Stderr, "usage: inproc <monitor> [flags]")
		os.Exit(2)
	}
	mon := os.Args[1]
	fs := flag.NewFlagSet(mon, flag.ExitOnError)
	seed := fs.Int64("seed", 1, "seed")
	tier := fs.String("tier", "quick", "tier")
	out := fs.String("out", "", "result file")
	replay := fs.String("replay", "", "replay file")
	dir := fs.String("dir", "", "project directory (pipeline monitors)")
	config := fs.String("config", "gleece.config.json", "config file (pipeline monitors)")
	history := fs.String("history", "GVI", "call history (rerun)")
	_ = fs.Parse(os.Args[2:])
	debug.SetGCPercent(800)

	var res *report.Result
	switch mon {
	case "genseq":
		// several CLI invocations in ONE process (library / watch-mode use): -config is a comma separated list
		if err := os.Chdir(*dir); err != nil {
			fmt.Fprintln(os.Stderr, err)
			os.Exit(2)
		}
		type step struct {
			Config string `json:"config"`
			Err    string `json:"err,omitempty"`
		}
		var steps []step
		for _, cfg := range strings.Split(*config, ",") {
			// "target<-source": the invocation uses the path `target`, whose content is first replaced by `source`
			// (the same path string with another content, as an editor session would produce)
			if tgt, src, ok := strings.Cut(cfg, "<-"); ok {
				b, err := os.ReadFile(src)
				if err != nil {
					fmt.Fprintln(os.Stderr, err)
					os.Exit(2)
				}
				_ = os.WriteFile(tgt, b, 0o644)
				cfg = tgt
			}
			r := gleececmd.ExecuteWithArgs([]string{"generate", "spec-and-routes", "-c", cfg, "--no-banner"}, true)
			st := step{Config: cfg}
			if r.Error != nil {
				st.Err = r.Error.Error()
			}
			steps = append(steps, st)
		}
		b, _ := json.Marshal(steps)
		if *out != "" {
			_ = os.WriteFile(*out, b, 0o644)
		} else {
			fmt.Println(string(b))
		}
		return
	case "validate", "rerun":
		var v any
		if mon == "validate" {
			v = pipe.Validate(*dir, *config)
		} else {
			v = pipe.Rerun(*dir, *config, *history)
		}
		b, _ := json.Marshal(v)
		if *out == "" {
			fmt.Println(string(b))
		} else if err := os.WriteFile(*out, b, 0o644); err != nil {
			fmt.Fprintln(os.Stderr, err)
			os.Exit(2)
		}
		return
	case "c15":
		if *replay != "" {
			var list []c15.Entry
			mustCase(*replay, &list)
			res = c15.Replay(list)
		} else {
			res = c15.Run(*seed, *tier)
		}
	case "c16":
		if *replay != "" {
			var b c16.Block
			mustCase(*replay, &b)
			res = c16.Replay(b)
		} else {
			res = c16.Run(*seed, *tier)
		}
	case "c17":
		if *replay != "" {
			var ops []c17.Op
			mustCase(*replay, &ops)
			res = c17.Replay(ops)
		} else {
			res = c17.Run(*seed, *tier)
		}
	default:
		fmt.Fprintf(os.Stderr, "unknown monitor %q\n", mon)
		os.Exit(2)
	}
	if *out == "" {
		b, _ := json.MarshalIndent(res, "", " ")
		fmt.Println(string(b))
		return
	}
	if err := report.WriteResult(*out, res); err != nil {
		fmt.Fprintln(os.Stderr, err)
		os.Exit(2)
	}
}

// mustCase loads the "case" member of a replay file into v.
func mustCase(path string, v any) {
	b, err := os.ReadFile(path)
	if err != nil {
		fmt.Fprintln(os.Stderr, err)
		os.Exit(2)
	}
	var w struct {
		Case json.RawMessage `json:"case"`
	}
	if err := json.Unmarshal(b, &w); err != nil || w.Case == nil {
		fmt.Fprintf(os.Stderr, "replay file %s has no case: %v\n", path, err)
		os.Exit(2)
	}
	if err := json.Unmarshal(w.Case, v); err != nil {
		fmt.Fprintf(os.Stderr, "replay file %s: %v\n", path, err)
		os.Exit(2)
	}
}
