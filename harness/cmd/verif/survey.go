package main

import (
	"fmt"
	"os"
	"sort"
	"strings"
	"sync"

	"verif/harness/lab"
	"verif/harness/orch"
	"verif/harness/report"
	"verif/harness/rng"
	"verif/harness/synth"
)

// survey: development aid (not a registered check). VERIF_PROFILE selects the profile.
func survey(c *orch.Ctx) (*report.Result, error) {
	profName := os.Getenv("VERIF_PROFILE")
	if profName == "" {
		profName = "routes"
	}
	prof, ok := synth.Profiles[profName]
	if !ok {
		return nil, fmt.Errorf("unknown profile %s", profName)
	}
	bin, err := c.CLI()
	if err != nil {
		return nil, err
	}
	l, err := lab.New(c)
	if err != nil {
		return nil, err
	}
	n := 24
	res := &report.Result{Property: "SURVEY"}
	var mu sync.Mutex
	outcomes := map[string]int{}
	msgs := map[string]int{}
	orch.ParallelMap(n, c.Parallel, func(i int) {
		r := rng.New(c.Seed, "SURVEY", profName, fmt.Sprint(i))
		p := synth.Gen(r, prof, fmt.Sprintf("p%03d", i), lab.ModPath)
		dir, err := l.Write(p, p.Render(synth.RenderOpts{}))
		if err != nil {
			panic(err)
		}
		cr := l.Gleece(bin, dir, "gen", 120, nil, "generate", "spec-and-routes", "-c", "gleece.config.json", "--no-banner")
		mu.Lock()
		defer mu.Unlock()
		res.Evaluations++
		key := fmt.Sprintf("exit=%d crash=%s", cr.Exit, lab.Classify(cr.ProcResult))
		outcomes[key]++
		if cr.Exit != 0 {
			t := lab.StripAnsi(cr.Stderr + cr.Stdout)
			lines := strings.Split(strings.TrimSpace(t), "\n")
			last := ""
			for _, ln := range lines {
				if (strings.Contains(ln, "[ERROR]") || strings.Contains(ln, "[FATAL]") || strings.Contains(ln, "panic")) && !strings.Contains(ln, "Unknown type: map") {
					last = ln
					break
				}
			}
			if last == "" && len(lines) > 0 {
				last = lines[len(lines)-1]
			}
			if len(last) > 300 {
				last = last[:300]
			}
			msgs[fmt.Sprintf("%s: %s", p.Name, last)]++
		}
	})
	var ks []string
	for k := range msgs {
		ks = append(ks, k)
	}
	sort.Strings(ks)
	for _, k := range ks {
		fmt.Println("REJECT", k)
	}
	fmt.Println("OUTCOMES", outcomes)
	if os.Getenv("VERIF_KEEP") != "" {
		fmt.Println("lab at", l.Root)
	}
	res.Distinct = 2
	res.Samples = []any{"survey"}
	return res, nil
}
