package main

import (
	"fmt"

	"verif/harness/orch"
	"verif/harness/props"
	"verif/harness/report"
)

// pertSurvey: development aid: one case per perturbation, prints what the real validators say.
func pertSurvey(c *orch.Ctx) (*report.Result, error) {
	cases, err := props.RunPertLab(c, "PERT", len(props.PerturbationIDs), props.PerturbationIDs, true)
	if err != nil {
		return nil, err
	}
	for _, pc := range cases {
		fmt.Printf("== %s [%s] expect=%s exit=%d created=%v\n", pc.Pt.ID, pc.Pt.Rule, pc.Pt.Expect, pc.CLI.Exit, pc.Created)
		if pc.Val == nil {
			fmt.Println("   VALIDATE FAILED:", pc.ValErr)
			continue
		}
		if pc.Val.ConfigErr+pc.Val.PipelineErr+pc.Val.GraphErr+pc.Val.ValidateErr+pc.Val.Panic != "" {
			fmt.Printf("   errs: cfg=%q pipe=%q graph=%.300q val=%.300q panic=%q\n", pc.Val.ConfigErr, pc.Val.PipelineErr, pc.Val.GraphErr, pc.Val.ValidateErr, pc.Val.Panic)
		}
		for _, d := range pc.Val.Diags {
			fmt.Printf("   %v %s sev=%d %v %q\n", d.Entity, d.Code, d.Severity, d.Range, d.Message)
		}
	}
	res := &report.Result{Property: "PERT", Evaluations: len(cases), Distinct: 2, Samples: []any{"x"}}
	return res, nil
}

func init() { registry["PERT"] = pertSurvey }
