// verif is the orchestrator: ./check <ID> <tier> builds and runs it; it builds the real code from
// /repo's working tree, runs the property's monitor, prints verdict lines and writes evidence.
package main

import (
	"flag"
	"fmt"
	"os"
	"strings"

	"verif/harness/orch"
	"verif/harness/props"
	"verif/harness/report"
)

type propFunc func(c *orch.Ctx) (*report.Result, error)

var registry = map[string]propFunc{}

func inprocProp(monitor string, quickTimeout, thoroughTimeout int) propFunc {
	return func(c *orch.Ctx) (*report.Result, error) {
		t := quickTimeout
		if !c.Quick() {
			t = thoroughTimeout
		}
		return c.RunInproc(monitor, t)
	}
}

func init() {
	registry["C15"] = func(c *orch.Ctx) (*report.Result, error) {
		// a replay file of the end-to-end stage carries "stage":"end-to-end"
		e2eReplay := false
		if c.Replay != "" {
			if b, err := os.ReadFile(c.Replay); err == nil && strings.Contains(string(b), `"stage": "end-to-end"`) {
				e2eReplay = true
			}
		}
		var res *report.Result
		if e2eReplay {
			res = &report.Result{Property: "C15"}
		} else {
			r, err := inprocProp("c15", 600, 3600)(c)
			if err != nil {
				return nil, err
			}
			res = r
			if c.Replay != "" {
				return res, nil
			}
		}
		if err := props.C15EndToEnd(c, res); err != nil {
			return nil, err
		}
		return res, nil
	}
	registry["C16"] = inprocProp("c16", 600, 3600)
	registry["C17"] = inprocProp("c17", 900, 7200)
	registry["SURVEY"] = survey
	for k, f := range props.Registry {
		registry[k] = f
	}
}

func main() {
	prop := flag.String("prop", "", "property id")
	tier := flag.String("tier", "quick", "quick|thorough")
	seed := flag.Int64("seed", 1, "seed")
	work := flag.String("work", "", "scratch dir")
	verif := flag.String("verif", "/verif", "verif dir")
	replay := flag.String("replay", "", "replay file")
	flag.Parse()
	f, ok := registry[*prop]
	if !ok {
		fmt.Printf("ERROR unknown property %q\n", *prop)
		os.Exit(2)
	}
	c := orch.NewCtx(*prop, *tier, *seed, *work, *verif, *replay)
	res, err := f(c)
	if err != nil {
		fmt.Printf("ERROR property=%s the check could not run: %v\n", *prop, err)
		os.Exit(2)
	}
	res.Property = *prop
	if *replay != "" {
		for _, v := range res.Violations {
			fmt.Printf("REPLAY-VIOLATION property=%s kind=%s %s\n", *prop, v.Kind, v.Detail)
		}
		if len(res.Violations) > 0 {
			os.Exit(1)
		}
		fmt.Printf("REPLAY-HELD property=%s\n", *prop)
		os.Exit(0)
	}
	os.Exit(report.Finish(*verif, res, *tier, *seed, c.Started))
}
