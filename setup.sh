#!/bin/bash
# Run once after a fresh restore, offline. Builds the framework and warms the Go build cache
# (every check rebuilds what it needs from /repo's working tree anyway).
set -u
export PATH=/opt/veriftools/go1.26/bin:$PATH GOFLAGS=-mod=mod GOPROXY=off GOSUMDB=off GOTOOLCHAIN=local
VERIF=$(cd "$(dirname "$0")" && pwd)
cd "$VERIF/harness" || exit 1
cp /repo/go.sum go.sum
W=$(mktemp -d /var/tmp/gleece-verif-setup.XXXXXX)
trap 'rm -rf "$W"' EXIT
go build -o "$W/verif" ./cmd/verif || exit 1
go build -tags verif -o "$W/inproc" ./cmd/inproc || exit 1
go build -tags verif -o "$W/gleece" github.com/gopher-fleece/gleece/v2 || exit 1
# the five engines + runtime + validator, plain and under the race detector: every check works on a
# throw-away overlay of this base cache, so what is not warmed here is recompiled by each check
go build -o "$W/warm" ./cmd/warm || exit 1
go build -race -o "$W/warm-race" ./cmd/warm || exit 1
go build -race -tags verif -o "$W/gleece-race" github.com/gopher-fleece/gleece/v2 || exit 1
if [ -x "$VERIF/setup_extra.sh" ]; then "$VERIF/setup_extra.sh" "$W" || exit 1; fi
echo "setup ok"
